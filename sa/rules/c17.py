"""C17 - paths taken from metadata cannot escape the dataset directory."""
from __future__ import annotations

import ast

from sa.cfg import CFG
from sa.context import Context, const_str, names_in
from sa.dataflow import EMPTY, TagFlow
from sa.model import AnalysisError, ClassInfo, FunctionInfo, dotted, short
from sa.valuation import Valuation

PATH_FIELDS_FLOOR = 2
ROOT_NAMES = {"self.path", "dataset_root_path", "dataset_root",
              "self._dataset_path", "self._dataset_root_path", "dataset.path",
              "self._dataset.path"}


def is_pydantic_model(ctx: Context, ci: ClassInfo) -> bool:
    return any(b.endswith("BaseModel") for b in ctx.repo.external_bases(ci))


def path_fields(ctx: Context) -> list[tuple[ClassInfo, str]]:
    out = []
    for mod in ctx.repo.hand_written():
        for ci in mod.classes.values():
            if not is_pydantic_model(ctx, ci):
                continue
            for name, ann in ci.fields.items():
                t = ctx.res.ann_type(mod, ann)
                if t is not None and "Path" in str(t):
                    out.append((ci, name))
    return out


_CONSTS: dict[str, ast.AST] = {}


def set_module_consts(ctx: Context) -> None:
    """String constants of the modules that hold path guards (so that
    `_PARENT_DIRECTORY in v.parts` is read as `'..' in v.parts`)."""
    from sa.norm import module_consts
    _CONSTS.clear()
    for m in ctx.repo.hand_written():
        _CONSTS.update(module_consts(m))


def _lit(e: ast.AST) -> ast.AST:
    if isinstance(e, ast.Name) and e.id in _CONSTS:
        return _CONSTS[e.id]
    # a local that names a part of the subject (`name = v.name`)
    fn = _CUR_FN[0] if "_CUR_FN" in globals() else None
    if isinstance(e, ast.Name) and fn is not None and \
            e.id not in fn.params():
        from sa.norm import expand
        x = expand(fn, e)
        if isinstance(x, ast.Attribute):
            return x
    return e


_CUR_FN: list = [None]
SAME_FLAVOUR = {"Path", "PurePath", "PurePosixPath", "PosixPath",
                "pathlib.Path", "pathlib.PurePath", "pathlib.PurePosixPath",
                "pathlib.PosixPath"}


def subject_ok(e: ast.AST | None) -> bool:
    """The tested object is the validated path itself (a parameter, a field
    of self, or Path(<that>)) - not a re-interpretation under another path
    flavour (PureWindowsPath('/abs').is_absolute() is False)."""
    fn = _CUR_FN[0]
    if e is None or fn is None:
        return True
    from sa.norm import expand
    e = expand(fn, e)
    while isinstance(e, ast.Call) and (dotted(e.func) or "") in SAME_FLAVOUR \
            and len(e.args) == 1 and not e.keywords:
        e = e.args[0]
    root = e
    while isinstance(root, ast.Attribute):
        root = root.value
    return isinstance(root, ast.Name) and (root.id in fn.params() or
                                           root.id in ("self", "cls"))


def path_atom(e: ast.AST) -> str | None:
    """Role of a sub-expression in a path guard."""
    if isinstance(e, ast.Compare) and len(e.ops) == 1:
        l, r = _lit(e.left), _lit(e.comparators[0])
        if isinstance(e.ops[0], (ast.In, ast.NotIn)) and const_str(l) == ".." \
                and isinstance(r, ast.Attribute) and r.attr == "parts" and \
                subject_ok(r.value):
            return "dotdot" if isinstance(e.ops[0], ast.In) else "no_dotdot"
        for a, b in ((l, r), (r, l)):
            if isinstance(a, ast.Attribute) and a.attr in ("anchor", "root",
                                                           "drive") and \
                    const_str(b) == "" and subject_ok(a.value):
                return "absolute" if isinstance(e.ops[0],
                                                ast.NotEq) else "relative"
            if isinstance(a, ast.Attribute) and a.attr == "name" and \
                    isinstance(b, (ast.Constant, ast.Name, ast.Attribute)):
                return "name_bad" if isinstance(e.ops[0],
                                                ast.NotEq) else "name_ok"
    if isinstance(e, ast.Call):
        f = e.func
        if isinstance(f, ast.Attribute) and f.attr == "is_absolute" and \
                subject_ok(f.value):
            return "absolute"
        if (dotted(f) or "").endswith("path.isabs"):
            return "absolute"
    if isinstance(e, ast.Attribute) and e.attr in ("anchor", "root", "drive"):
        return "absolute"
    return None


SCENARIOS = [
    ("a '..' component", {"dotdot": True, "no_dotdot": False,
                          "absolute": False, "relative": True,
                          "name_bad": False, "name_ok": True}, "raise"),
    ("an absolute path", {"dotdot": False, "no_dotdot": True, "absolute": True,
                          "relative": False, "name_bad": False,
                          "name_ok": True}, "raise"),
    ("a clean relative path", {"dotdot": False, "no_dotdot": True,
                               "absolute": False, "relative": True,
                               "name_bad": False, "name_ok": True}, "return"),
]


_CTX: list = [None]


def raw_outcome(fn: FunctionInfo, vals: dict, depth: int = 0) -> tuple[bool, bool]:
    """(returns normally, reaches a raise) of fn under one scenario. A call
    that hands fn's subject to another guard function of the package (a
    validator delegating to a sibling validator) is evaluated by that
    function's outcome: when it can only raise, the call does not return."""
    _CUR_FN[0] = fn
    v = Valuation(fn, path_atom, vals)
    from sa.constflow import refine
    cfg = refine(fn, {}, oracle=v.truth)
    noexc = lambda a, b, lab: lab != "exc"  # noqa: E731
    live = cfg.reachable([cfg.entry], follow=noexc)
    raises = any(n.kind == "stmt" and isinstance(n.ast, ast.Raise)
                 for n in live)
    ctx = _CTX[0]
    if ctx is not None and depth < 3:
        params = [p for p in fn.params() if p not in ("cls", "self")]
        dead_calls = []
        for n in cfg.calls():
            if n not in live or not params:
                continue
            for g in ctx.internal_targets(fn, n.ast):
                if g is fn or isinstance(g.node, ast.Lambda):
                    continue
                gp = [p for p in g.params() if p not in ("cls", "self")]
                from sa.rules.common import passed_expr
                e = passed_expr(n.ast, g, gp[0]) if gp else None
                if e is None or not subject_ok_in(fn, e, params[0]):
                    continue
                g_ret, g_raise = raw_outcome(g, vals, depth + 1)
                _CUR_FN[0] = fn
                if g_raise:
                    raises = True
                if not g_ret:
                    dead_calls.append(n)
        if dead_calls:
            live = cfg.reachable([cfg.entry], avoiding=dead_calls,
                                 follow=noexc)
    return cfg.exit in live, raises


def subject_ok_in(fn: FunctionInfo, e: ast.AST, given: str) -> bool:
    from sa import norm as _norm
    return _norm.canon(fn, e) == given


def guard_outcomes(fn: FunctionInfo, stop_at=None) -> list[tuple[str, str, bool, str]]:
    """(scenario, required, ok, detail) for the three path scenarios."""
    out = []
    _CUR_FN[0] = fn
    for label, vals, required in SCENARIOS:
        returns, raises = raw_outcome(fn, vals)
        if required == "raise":
            ok = not returns and raises
        else:
            ok = returns and not raises
        out.append((label, required, ok,
                    f"returns normally={returns}, reaches raise={raises}"))
    return out


def run(ctx: Context, rep) -> None:
    rep.not_decided = (
        "symbolic links inside the dataset directory (outside the property's "
        "input space); that pathlib's lexical join behaves as the frozen "
        "table says (root / p stays under root iff p is relative and has no "
        "'..' part); what readers do with the files")
    rep.assumptions += [
        "pathlib: root / p leaves root lexically iff p is absolute or has a "
        "'..' component",
        "pydantic runs field_validator functions on every construction and "
        "on model_validate_json (nested models included)",
    ]
    # ---------------------------------------------------------------------
    rep.rule(
        "C17.validate",
        "every Path-typed field of a persisted (pydantic) model has a "
        "field_validator that, by boolean specialisation over the atoms "
        "{'..' in parts, is absolute}, raises when either atom is true and "
        "returns its argument when both are false; the writer's "
        "sub-directory argument has the same two-atom guard before it is "
        "stored")
    set_module_consts(ctx)
    _CTX[0] = ctx
    fields = path_fields(ctx)
    if len(fields) < PATH_FIELDS_FLOOR:
        raise AnalysisError(f"C17.validate: {len(fields)} Path fields found, "
                            f"floor {PATH_FIELDS_FLOOR}")
    for ci, field in fields:
        validators = []
        for m in ci.methods.values():
            if isinstance(m.node, ast.Lambda):
                continue
            for d in m.node.decorator_list:
                if isinstance(d, ast.Call) and (dotted(d.func) or "").endswith(
                        "field_validator") and any(
                            const_str(a) in (field, "*") for a in d.args):
                    mode = next((const_str(k.value) for k in d.keywords
                                 if k.arg == "mode"), "after")
                    validators.append((m, mode))
        loc = f"{ci.module.relpath}:{ci.node.lineno}"
        if not validators:
            rep.ob("C17.validate", False, loc=loc, where=ci.name,
                   construct=f"{ci.name}.{field}: Path",
                   message="Path field without a validator")
            continue
        for label, _vals, required in SCENARIOS:
            results = []
            for m, mode in validators:
                for lab, req, ok, detail in guard_outcomes(m):
                    if lab == label:
                        results.append((m, ok, detail))
            if required == "raise":
                ok = any(r[1] for r in results)
            else:
                ok = all(r[1] for r in results)
            m0 = validators[0][0]
            rep.ob("C17.validate", ok, loc=m0.loc(), where=m0.qualname,
                   construct=f"{ci.name}.{field} given {label}",
                   message=f"validator must {required} for {label}: " +
                   "; ".join(f"{r[0].name}: {r[2]}" for r in results))
        for m, mode in validators:
            # registered at all: the validator decorator is the outermost one
            d0 = m.node.decorator_list[0]
            n0 = ((dotted(d0.func) if isinstance(d0, ast.Call) else
                   dotted(d0)) or "").rsplit(".", 1)[-1]
            rep.ob("C17.validate", n0 in ("field_validator", "validator"),
                   loc=m.loc(), where=m.qualname,
                   construct="outermost decorator @" + n0,
                   message="pydantic registers a field validator only when "
                   "@field_validator is applied on top of @classmethod")
        for m, mode in validators:
            # returns its argument unchanged
            params = [p for p in m.params() if p not in ("cls", "self")]
            rets = [n for n in m.body_nodes() if isinstance(n, ast.Return)]
            from sa.rules.common import identity_validator
            ok = identity_validator(ctx, m)
            rep.ob("C17.validate", ok, loc=m.loc(), where=m.qualname,
                   construct=f"return {params[0] if params else '?'}",
                   message="validator returns the validated value unchanged")
    # writer argument
    init = ctx.fn("sedpack.io.dataset_filler:_DatasetFillerContext.__init__")
    arg = "relative_path_from_split"
    if arg not in init.params():
        raise AnalysisError(f"_DatasetFillerContext.__init__ lost `{arg}`")
    for label, vals, required in SCENARIOS:
        _CUR_FN[0] = init
        v = Valuation(init, path_atom, vals)
        cfg = CFG(init, oracle=v.truth)
        live = cfg.reachable([cfg.entry], follow=lambda a, b, lab: lab != "exc")
        stores = [
            n for n in live if n.kind == "stmt" and isinstance(
                n.ast, (ast.Assign, ast.AnnAssign)) and arg in names_in(
                    getattr(n.ast, "value", None))
        ]
        if required == "raise":
            ok = not stores and cfg.exit not in live
        else:
            ok = bool(stores) and cfg.exit in live
        rep.ob("C17.validate", ok, loc=init.loc(), where=init.qualname,
               construct=f"{arg} given {label}",
               message=f"constructor must {required} for {label} before the "
               f"argument is stored (stores reachable: {len(stores)}, "
               f"returns: {cfg.exit in live})")
    # every construction of the context passes the caller's argument
    n_ctor = 0
    for f in ctx.repo.all_functions():
        for c in f.calls():
            if ctx.is_call(f, c, "dataset_filler._DatasetFillerContext"):
                n_ctor += 1
    rep.info("C17.validate", f"{len(fields)} Path fields: " + ", ".join(
        f"{c.name}.{f}" for c, f in fields) +
             f"; {n_ctor} construction site(s) of the filler context")

    # ---------------------------------------------------------------------
    rep.rule(
        "C17.join",
        "every file-system read (and every internal function parameter that "
        "flows into one) whose path derives from a persisted path field "
        "receives <dataset root> / <field>, never the field alone")
    field_names = {f for _c, f in fields}
    n_sinks = check_join(ctx, rep, field_names)
    rep.floor("C17.join", n_sinks, 5, "instances")

    # ---------------------------------------------------------------------
    # the validators only see what is parsed through the models
    rep.rule(
        "C17.parse",
        "metadata files are parsed only by <persisted model>."
        "model_validate_json (which runs the path validators): no json.load / "
        "json.loads and no model_construct in sedpack.io, so no path read "
        "from a metadata file bypasses the validators")
    n_parse = 0
    for fn in ctx.repo.all_functions():
        if not fn.module.name.startswith("sedpack.io"):
            continue
        for c_ in fn.calls():
            if isinstance(c_.func, ast.Attribute) and c_.func.attr in (
                    "model_validate_json", ):
                n_parse += 1
            raw = ctx.is_call(fn, c_, "json.load", "json.loads") or (
                isinstance(c_.func, ast.Attribute) and c_.func.attr in (
                    "model_construct", "construct"))
            if raw:
                rep.ob("C17.parse", False, loc=fn.loc(c_), where=fn.qualname,
                       construct=short(c_, 70),
                       message="a metadata file is parsed without the models' "
                       "validators (paths taken from it are unchecked)")
    rep.ob("C17.parse", n_parse >= 3,
           loc="src/sedpack/io/dataset_base.py:1", where="sedpack.io",
           construct=f"{n_parse} model_validate_json site(s), no raw parse",
           message="metadata is parsed through the validating models")

    # ---------------------------------------------------------------------
    rep.rule(
        "C17.contain",
        "in ShardsList.load_or_create the containment test compares the "
        "resolved candidate with the resolved root and, when false, the "
        "read is unreachable")
    loc_fn = ctx.fn("sedpack.io.shard_file_metadata:ShardsList.load_or_create")

    def contain_atom(e):
        if isinstance(e, ast.Call) and isinstance(
                e.func, ast.Attribute) and e.func.attr == "is_relative_to":
            return "contained"
        return None

    tests = [c for c in loc_fn.calls() if contain_atom(c)]
    rep.ob("C17.contain", bool(tests), loc=loc_fn.loc(), where=loc_fn.qualname,
           construct="<resolved>.is_relative_to(<resolved root>)",
           message="containment test present")
    defs = Valuation(loc_fn, contain_atom, {}).defs
    for c in tests:
        recv = c.func.value
        recv_e = defs.get(recv.id) if isinstance(recv, ast.Name) else recv
        arg0 = c.args[0] if c.args else None
        arg_e = defs.get(arg0.id) if isinstance(arg0, ast.Name) else arg0

        def resolved(e):
            return e is not None and any(
                isinstance(x, ast.Call) and isinstance(x.func, ast.Attribute)
                and x.func.attr == "resolve" for x in ast.walk(e))

        rep.ob("C17.contain", resolved(recv_e) and resolved(arg_e),
               loc=loc_fn.loc(c), where=loc_fn.qualname, construct=short(c),
               message="both sides of the containment test are resolved "
               "paths")
    # the path tested is the path read, completely resolved: the receiver of
    # the containment test is <read path>.resolve() (or the read goes through
    # the resolved path itself) - resolving only the directory leaves the
    # last component free to be a link that leaves the root
    from sa.norm import canon as _canon
    read_paths = []
    for rc in loc_fn.calls():
        if "FS_READ" in ctx.effects(loc_fn, rc) and isinstance(
                rc.func, ast.Attribute):
            read_paths.append(rc.func.value)
    for c in tests:
        rc_ = _canon(loc_fn, c.func.value)
        ok_same = bool(read_paths) and all(
            rc_ == _canon(loc_fn, r) or
            rc_ == f"({_canon(loc_fn, r)}).resolve()" or
            rc_ == f"{_canon(loc_fn, r)}.resolve()" for r in read_paths)
        rep.ob("C17.contain", ok_same, loc=loc_fn.loc(c), where=loc_fn.qualname,
               construct=f"tested {short(ast.parse(rc_, mode='eval').body, 60)}"
               f" / read {[short(ast.parse(_canon(loc_fn, r), mode='eval').body, 50) for r in read_paths]}",
               message="the containment test is made on the complete "
               "resolved path of the file that is read")
    v = Valuation(loc_fn, contain_atom, {"contained": False})
    cfg = CFG(loc_fn, oracle=v.truth)
    live = cfg.reachable([cfg.entry], follow=lambda a, b, lab: lab != "exc")
    reads = [n for n in live if n.kind == "call" and "FS_READ" in ctx.effects(
        loc_fn, n.ast)]
    rep.ob("C17.contain", not reads, loc=loc_fn.loc(), where=loc_fn.qualname,
           construct="not contained => no read",
           message="with the containment test false no file read is "
           f"reachable ({len(reads)} reachable)")
    # nothing read from the dataset's files / the environment is memoised
    from sa.rules import shared as _shm
    _shm.check_no_memo(ctx, rep, "C17.memo")
    # the containment test lives in the list loader: every shard list is
    # obtained through it (same structural check as C06.load), and it
    # compares with a root that was resolved when the handle was made (same
    # check as C20.reloc): a relative root re-read after a chdir names
    # another tree
    _shm.share_rules(ctx, rep, "c06", {"C06.load": "C17.loader"})
    _shm.share_rules(ctx, rep, "c20", {"C20.reloc": "C17.root"})

def check_join(ctx: Context, rep, field_names: set[str]) -> int:
    # summaries: parameters that flow into a read sink
    sink_params: dict[str, set[str]] = {}

    def hook(e, state, rec):
        if isinstance(e, ast.Attribute) and e.attr in field_names:
            return frozenset({"field"})
        d = dotted(e) if isinstance(e, (ast.Name, ast.Attribute)) else None
        if d in ROOT_NAMES:
            return frozenset({"root"})
        if isinstance(e, ast.BinOp) and isinstance(e.op, ast.Div):
            l = rec(e.left)
            if "root" in l or "rooted" in l:
                return frozenset({"rooted"})
        if isinstance(e, ast.Call) and isinstance(
                e.func, ast.Attribute) and e.func.attr == "joinpath":
            if {"root", "rooted"} & rec(e.func.value):
                return frozenset({"rooted"})
        if isinstance(e, ast.Call) and isinstance(
                e.func, ast.Attribute) and e.func.attr in ("resolve",
                                                           "absolute"):
            return rec(e.func.value)
        return None

    funcs = ctx.repo.all_functions()

    def path_args(fn: FunctionInfo, call: ast.Call) -> list[ast.AST]:
        eff = ctx.effects(fn, call)
        out: list[ast.AST] = []
        if "FS_READ" in eff:
            f = call.func
            if isinstance(f, ast.Attribute) and f.attr in (
                    "read_text", "read_bytes", "open"):
                out.append(f.value)
                if f.attr == "open" and not isinstance(
                        ctx.res.infer(fn, f.value), type(None)) and call.args \
                        and (dotted(f.value) or "") in ("aiofiles", "io",
                                                        "gzip"):
                    out = [call.args[0]]
            elif call.args:
                out.append(call.args[0])
            for k in call.keywords:
                if k.arg in ("file", "path", "filenames", "file_path"):
                    out.append(k.value)
        for callee in ctx.internal_targets(fn, call):
            for p in sink_params.get(callee.fq, ()):
                from sa.rules.common import passed_expr
                e = passed_expr(call, callee, p)
                if e is not None:
                    out.append(e)
        return out

    # fixpoint over summaries (2 rounds suffice for this package)
    for _ in range(3):
        for fn in funcs:
            cfg = ctx.cfg(fn)
            tf = TagFlow(cfg, {p: frozenset({"p:" + p}) for p in fn.params()},
                         hook=hook)
            for node in cfg.calls():
                for e in path_args(fn, node.ast):
                    for t in tf.tags_at(node, e):
                        if t.startswith("p:"):
                            sink_params.setdefault(fn.fq, set()).add(t[2:])
    n = 0
    for fn in funcs:
        cfg = ctx.cfg(fn)
        tf = TagFlow(cfg, {}, hook=hook)
        for node in cfg.calls():
            for e in path_args(fn, node.ast):
                tags = tf.tags_at(node, e)
                if "field" in tags or "rooted" in tags:
                    n += 1
                    rep.ob("C17.join", "field" not in tags,
                           loc=fn.loc(node.ast), where=fn.qualname,
                           construct=short(node.ast, 110),
                           message="a path read from metadata reaches this "
                           "read without being joined under the dataset "
                           f"root: {short(e)}")
    # path strings handed to the readers
    sp = ctx.fn("sedpack.io.dataset_iteration:DatasetIteration."
                "shard_paths_dataset")
    cfg = ctx.cfg(sp)
    tf = TagFlow(cfg, {}, hook=hook)
    for node in cfg.nodes:
        if node.kind == "stmt" and isinstance(node.ast, ast.Return):
            tags = tf.tags_at(node, node.ast.value)
            n += 1
            rep.ob("C17.join", "rooted" in tags and "field" not in tags,
                   loc=sp.loc(node.ast), where=sp.qualname,
                   construct=short(node.ast),
                   message="shard paths handed to the readers are "
                   "<root> / <file_path>")
    rep.info("C17.join", "parameters that flow into a file read: " + "; ".join(
        f"{k.split(':')[1]}({', '.join(sorted(v))})"
        for k, v in sorted(sink_params.items())))
    return n


_FI = "src/sedpack/io/file_info.py"
_SM = "src/sedpack/io/shard_file_metadata.py"
_DF = "src/sedpack/io/dataset_filler.py"
_ABS_FI = ('        if v.is_absolute():\n            raise ValueError("An absolute path is not relative to "\n'
           '                             "`dataset_root_path`.")\n')
SELFTESTS = [
    dict(rule="C17.parse", name="children-read-from-raw-json", expect="fire",
         path="src/sedpack/io/dataset_writing.py",
         old="        for child in shard_list.children_shard_lists:\n            self._check_shard_list_info(child)\n",
         new="        import json\n        for child in json.loads((self.path / file_path).read_text(encoding=\"utf-8\")).get(\"children_shard_lists\", []):\n            self._check_shard_list_info(ShardListInfo.model_validate(child))\n"),
    dict(rule="C17.contain", name="only-directory-resolved", expect="fire", path=_SM,
         old="        canonical_path = (dataset_root_path / relative_path_self).resolve()\n",
         new="        canonical_path = (dataset_root_path / relative_path_self.parent).resolve() / relative_path_self.name\n"),
    dict(rule="C17.validate", name="fileinfo-drop-absolute", expect="fire",
         path=_FI, old=_ABS_FI, new=""),
    dict(rule="C17.validate", name="fileinfo-drop-dotdot", expect="fire",
         path=_FI,
         old='        if ".." in v.parts:\n            raise ValueError("A .. is present in the path which could allow "\n                             "directory traversal above `dataset_root_path`.")\n',
         new=""),
    dict(rule="C17.validate", name="anchor-twin", expect="silent", path=_FI,
         old="        if v.is_absolute():\n", new='        if v.anchor != "":\n'),
    dict(rule="C17.validate", name="combined-or-twin", expect="silent",
         path=_FI,
         old='        if ".." in v.parts:\n            raise ValueError("A .. is present in the path which could allow "\n                             "directory traversal above `dataset_root_path`.")\n' + _ABS_FI,
         new='        if ".." in v.parts or v.is_absolute():\n            raise ValueError("bad path")\n'),
    dict(rule="C17.validate", name="shardslist-absolute-inverted", expect="fire",
         path=_SM, old="        if v.is_absolute():\n",
         new="        if not v.is_absolute():\n"),
    dict(rule="C17.validate", name="filler-check-after-store", expect="fire",
         path=_DF,
         old='        if relative_path_from_split.is_absolute():\n',
         new='        self._relative_path_from_split = relative_path_from_split\n        if relative_path_from_split.is_absolute() and False:\n'),
    dict(rule="C17.validate", name="validator-returns-other", expect="fire",
         path=_FI, old="        return v\n", new="        return v.resolve()\n"),
    dict(rule="C17.join", name="read-field-alone", expect="fire",
         path="src/sedpack/io/dataset_base.py",
         old="            (self.path /\n             shard_list_info.shard_list_info_file.file_path).read_text())",
         new="            (shard_list_info.shard_list_info_file.file_path).read_text())"),
    dict(rule="C17.join", name="hash-field-alone", expect="fire",
         path="src/sedpack/io/dataset_writing.py",
         old="                        file_path=self.path / file_info.file_path,",
         new="                        file_path=file_info.file_path,"),
    dict(rule="C17.join", name="joinpath-twin", expect="silent",
         path="src/sedpack/io/dataset_writing.py",
         old="                        file_path=self.path / file_info.file_path,",
         new="                        file_path=self.path.joinpath(file_info.file_path),"),
    dict(rule="C17.join", name="iteration-paths-not-rooted", expect="fire",
         path="src/sedpack/io/dataset_iteration.py",
         old="str(self.path / s.file_infos[0].file_path) for s in shards_list",
         new="str(s.file_infos[0].file_path) for s in shards_list"),
    dict(rule="C17.contain", name="unresolved-root", expect="fire", path=_SM,
         old="if not canonical_path.is_relative_to(dataset_root_path.resolve()):",
         new="if not canonical_path.is_relative_to(dataset_root_path):"),
    dict(rule="C17.contain", name="containment-inverted", expect="fire", path=_SM,
         old="if not canonical_path.is_relative_to(dataset_root_path.resolve()):",
         new="if canonical_path.is_relative_to(dataset_root_path.resolve()):"),
]
