"""C07 - unreadable shards surface as errors: never a hang, never silent
truncation."""
from __future__ import annotations

import ast

from sa.cfg import CFG, handler_catches_all, handler_names
from sa.context import Context, raises_in
from sa.dataflow import TagFlow
from sa.model import AnalysisError, ClassInfo, FunctionInfo, dotted, parent, short
from sa.rules import rustrules

READ_PATH_MODULES = [
    "sedpack.io.itertools.itertools", "sedpack.io.itertools.lazy_pool",
    "sedpack.io.dataset_iteration", "sedpack.io.dataset_base",
    "sedpack.io.flatbuffer.iterate", "sedpack.io.npz.iterate_npz",
    "sedpack.io.tfrec.read", "sedpack.io.tfrec.tfdata", "sedpack.io.compress",
    "sedpack.io.shard.iterate_shard_base",
]
READER_MODULES = {"sedpack.io.flatbuffer.iterate", "sedpack.io.npz.iterate_npz",
                  "sedpack.io.tfrec.read"}
CONTROL_FLOW = {"StopIteration", "StopAsyncIteration", "queue.Empty", "Empty",
                "GeneratorExit"}
# (function, handler names) -> reason; one named symbol each
HANDLER_EXCEPTIONS = {
    ("DatasetBase.__init__", ("RuntimeError", )):
        "Path.expanduser() fails only when there is no home directory to "
        "expand; the try body reads no file",
}
HANDLER_FLOOR = 9


def thread_classes(ctx: Context) -> list[ClassInfo]:
    out = []
    for mod in ctx.repo.hand_written():
        for ci in mod.classes.values():
            if any(b.endswith("threading.Thread") or b == "Thread"
                   for b in ctx.repo.external_bases(ci)):
                out.append(ci)
    return out


def queue_calls(fn: FunctionInfo, cfg: CFG, method: str, field: str):
    return [
        n for n in cfg.calls() if isinstance(n.ast.func, ast.Attribute) and
        n.ast.func.attr == method and (dotted(n.ast.func.value) or "").endswith(field)
    ]


def check_worker(ctx: Context, rep, rule: str) -> dict:
    """Worker typestate (A6). Returns facts used by C13."""
    rep.rule(
        rule,
        "for every threading.Thread subclass whose run() applies a "
        "caller-supplied callable: on every path from the call of the "
        "callable - including its exceptional exit - exactly one item is "
        "put on the result queue before the next loop round or any exit; "
        "the failure class put by the handler is tested by the consumer and "
        "leads to a raise")
    facts: dict = {}
    classes = thread_classes(ctx)
    if not classes:
        raise AnalysisError("C07.worker: no threading.Thread subclass found")
    for ci in classes:
        run = ci.methods.get("run")
        if run is None:
            continue
        cfg = ctx.cfg(run)
        # caller supplied callables: self.<field> typed Callable
        fcalls = []
        for n in cfg.calls():
            f = n.ast.func
            if isinstance(f, ast.Attribute) and dotted(f.value) == "self":
                ann = ctx.repo.find_field(ci, f.attr)
                if ann is not None and "Callable" in ast.unparse(ann):
                    fcalls.append(n)
        if not fcalls:
            continue
        heads = [n for n in cfg.nodes if n.kind in ("loop", "for")]
        # result queue = queue the results of the callable are put on
        puts = [n for n in cfg.calls() if isinstance(n.ast.func, ast.Attribute)
                and n.ast.func.attr in ("put", "put_nowait")]
        tf = TagFlow(cfg, {})
        facts[ci.name] = {"run": run, "cfg": cfg, "puts": puts,
                          "fcalls": fcalls, "heads": heads}
        from sa.rules.common import trivial_call

        def follow(a, b, lab, _run=run):
            return not (lab == "exc" and a.kind == "call" and
                        trivial_call(ctx, _run, a.ast))

        facts[ci.name]["follow"] = follow
        for fc in fcalls:
            ends = set(heads) | {cfg.exit, cfg.raise_exit}
            # exceptional exit of the callable
            exc_succ = [m for m, lab in fc.succ if lab == "exc"]
            reach_exc = cfg.reachable(exc_succ, avoiding=puts, follow=follow)
            lost = [e for e in ends if e in reach_exc]
            rep.ob(rule, not lost, loc=run.loc(fc.ast), where=run.qualname,
                   construct=short(fc.ast) + " raises",
                   message="when the mapped function raises, the failure "
                   "must be put on the result queue; otherwise the worker "
                   "dies silently and the consumer waits forever "
                   f"(reaches {[e.kind for e in lost]} without a put)",
                   path=f"{short(fc.ast)} -exc-> " + " / ".join(
                       e.kind for e in lost) if lost else "")
            norm_succ = [m for m, lab in fc.succ if lab != "exc"]
            reach_ok = cfg.reachable(norm_succ, avoiding=puts, follow=follow)
            lost2 = [e for e in ends if e in reach_ok]
            rep.ob(rule, not lost2, loc=run.loc(fc.ast), where=run.qualname,
                   construct=short(fc.ast) + " returns",
                   message="the result of the mapped function is put on the "
                   "result queue before the next round")
        for p in puts:
            again = cfg.reachable([p], avoiding=heads, strict=True)
            dup = [q for q in puts if q in again]
            rep.ob(rule, not dup, loc=run.loc(p.ast), where=run.qualname,
                   construct=short(p.ast),
                   message="at most one put per item taken (a second put is "
                   "reachable in the same round)")
        # the failure class
        failure_classes: set[str] = set()
        for n in cfg.nodes:
            if n.kind == "except":
                h = n.ast
                for c in ast.walk(h):
                    if isinstance(c, ast.Call) and h.name and any(
                            isinstance(x, ast.Name) and x.id == h.name
                            for a in list(c.args) + [k.value for k in c.keywords]
                            for x in ast.walk(a)):
                        for t in ctx.res.resolve_call(run, c, count=False):
                            if t.kind == "class":
                                failure_classes.add(t.cls.fq)
        facts[ci.name]["failure_classes"] = failure_classes
        # the consumer: functions constructing this thread class
        consumers = [
            f for f in ctx.repo.all_functions()
            if any(ctx.is_call(f, c, ci.fq) for c in f.calls())
        ]
        facts[ci.name]["consumers"] = consumers
        for cons in consumers:
            tests = []
            for n in cons.body_nodes():
                if isinstance(n, ast.If) and isinstance(
                        n.test, ast.Call) and isinstance(
                            n.test.func, ast.Name) and \
                        n.test.func.id == "isinstance" and len(n.test.args) == 2:
                    q = ctx.repo.qualify(cons.module, n.test.args[1])
                    if q in failure_classes and raises_in(n.body):
                        tests.append(n)
            if failure_classes:
                rep.ob(rule, bool(tests), loc=cons.loc(), where=cons.qualname,
                       construct="if isinstance(result, " + "/".join(
                           sorted(c.rsplit(".", 1)[-1] for c in failure_classes)) +
                       "): raise",
                       message="the consumer re-raises failures forwarded by "
                       "the worker")
                for t in tests:
                    # what is raised derives from the failure item
                    r = t.body[-1]
                    ok = isinstance(r, ast.Raise) and r.exc is not None and \
                        dotted(t.test.args[0]) in {
                            dotted(x) for x in ast.walk(r.exc)
                            if isinstance(x, (ast.Name, ast.Attribute))} | {
                                (dotted(x.value) if isinstance(
                                    x, ast.Attribute) else None)
                                for x in ast.walk(r.exc)}
                    rep.ob(rule, bool(ok), loc=cons.loc(r), where=cons.qualname,
                           construct=short(r),
                           message="the raised exception comes from the "
                           "forwarded failure item")
    if not facts:
        raise AnalysisError("C07.worker: no worker applying a caller-supplied "
                            "callable found")
    return facts


def check_handlers(ctx: Context, rep, rule: str, forwarded_ok: set[int]) -> None:
    rep.rule(
        rule,
        "every `except` on a read path names only control-flow exceptions "
        "(StopIteration, StopAsyncIteration, queue.Empty), or re-raises on "
        "every path, or is the worker handler whose forwarding C07.worker "
        "proves; no contextlib.suppress, no existence test that would skip a "
        "missing shard")
    n = 0
    for modname in READ_PATH_MODULES:
        mod = ctx.repo.module(modname)
        for fn in mod.functions.values():
            for node in fn.body_nodes():
                if isinstance(node, ast.ExceptHandler):
                    n += 1
                    names = handler_names(node)
                    tails = {x.rsplit(".", 1)[-1] for x in names}
                    control = all(x in CONTROL_FLOW or x.rsplit(".", 1)[-1]
                                  in CONTROL_FLOW for x in names)
                    reraises = raises_in(node.body)
                    forwarded = id(node) in forwarded_ok
                    table = HANDLER_EXCEPTIONS.get(
                        (fn.qualname, tuple(names)))
                    if table is not None:
                        # the try body must not read files
                        tr = parent(node)
                        reads = [c for s in tr.body for c in ast.walk(s)
                                 if isinstance(c, ast.Call) and "FS_READ" in
                                 ctx.effects(fn, c)]
                        ok = not reads
                        why = f"table exception: {table}"
                    else:
                        ok = control or reraises or forwarded
                        why = ("control-flow only" if control else
                               "re-raises" if reraises else
                               "forwards to the consumer" if forwarded else
                               "swallows the error")
                    rep.ob(rule, ok, loc=fn.loc(node), where=fn.qualname,
                           construct=f"except {', '.join(names)}: " +
                           short(node.body[0], 50),
                           message=f"handler on a read path: {why}")
                if isinstance(node, ast.Call):
                    q = ctx.names(fn, node)
                    if any(x.endswith("contextlib.suppress") for x in q):
                        # `with suppress(E): BODY` is `try: BODY except E: pass`
                        # and is judged like that handler
                        names = [dotted(a) or ast.unparse(a) for a in node.args]
                        control = bool(names) and all(
                            x in CONTROL_FLOW or x.rsplit(".", 1)[-1]
                            in CONTROL_FLOW for x in names)
                        table = HANDLER_EXCEPTIONS.get(
                            (fn.qualname, tuple(names)))
                        ok = control
                        why = "control-flow only" if control else \
                            "swallows the error"
                        w = parent(node)
                        while w is not None and not isinstance(
                                w, (ast.With, ast.AsyncWith)):
                            w = parent(w)
                        if table is not None and w is not None:
                            reads = [c for s in w.body for c in ast.walk(s)
                                     if isinstance(c, ast.Call) and "FS_READ" in
                                     ctx.effects(fn, c)]
                            ok = not reads
                            why = f"table exception: {table}"
                        rep.ob(rule, ok, loc=fn.loc(node), where=fn.qualname,
                               construct=short(node),
                               message="contextlib.suppress on a read path: "
                               + why)
                if isinstance(node, ast.Call):
                    f = node.func
                    nm = f.attr if isinstance(f, ast.Attribute) else (
                        f.id if isinstance(f, ast.Name) else "")
                    if nm in ("glob", "iglob", "rglob", "list_files", "listdir",
                              "scandir", "iterdir", "walk", "match_filenames_once"):
                        rep.ob(rule, False, loc=fn.loc(node), where=fn.qualname,
                               construct=short(node, 80),
                               message="the read path enumerates / globs the "
                               "file system instead of opening exactly the "
                               "files the metadata names: a missing shard "
                               "would be skipped silently")
                if isinstance(node, ast.Return) and modname in READER_MODULES \
                        and any(isinstance(x, (ast.Yield, ast.YieldFrom))
                                for x in fn.body_nodes()):
                    rep.ob(rule, False, loc=fn.loc(node), where=fn.qualname,
                           construct=short(node),
                           message="a shard reader (generator) ends early "
                           "with `return`: content it does not like would be "
                           "skipped instead of being rejected by the decoder")
                if isinstance(node, (ast.If, ast.While, ast.IfExp)):
                    for c in ast.walk(node.test):
                        if isinstance(c, ast.Call) and isinstance(
                                c.func, ast.Attribute) and c.func.attr in (
                                    "exists", "is_file") or (
                                        isinstance(c, ast.Call) and any(
                                            x.endswith(("path.exists",
                                                        "path.isfile"))
                                            for x in ctx.names(fn, c))):
                            rep.ob(rule, False, loc=fn.loc(c), where=fn.qualname,
                                   construct=short(node.test),
                                   message="existence test on a read path: a "
                                   "missing shard would be skipped instead of "
                                   "raising")
    if n < HANDLER_FLOOR:
        raise AnalysisError(f"C07.handlers: {n} handlers on the read path, "
                            f"floor {HANDLER_FLOOR}")
    rep.info(rule, f"{n} handlers audited in {len(READ_PATH_MODULES)} modules")


def run(ctx: Context, rep) -> None:
    rep.not_decided = (
        "'within bounded time' as a number; error propagation inside "
        "tf.data, asyncio and concurrent.futures (trusted library "
        "semantics); which thread meets the fault at run time; that every "
        "kind of damage is rejected by the codec/decoder")
    rep.assumptions += [
        "ThreadPoolExecutor.map re-raises a worker exception when its result "
        "is iterated; asyncio and tf.data propagate exceptions to the "
        "consumer",
        "a Rust thread that panics drops its channel ends, so recv() on the "
        "other side returns Err",
    ]
    facts = check_worker(ctx, rep, "C07.worker")
    forwarded: set[int] = set()
    for name, f in facts.items():
        cfg = f["cfg"]
        for n in cfg.nodes:
            if n.kind == "except":
                # handler forwards if a put is reached from it on every path
                ends = set(f["heads"]) | {cfg.exit, cfg.raise_exit}
                reach = cfg.reachable([n], avoiding=f["puts"],
                                      follow=f["follow"])
                if not (ends & reach) and f["failure_classes"]:
                    forwarded.add(id(n.ast))
    check_handlers(ctx, rep, "C07.handlers", forwarded)

    rep.rule(
        "C07.pool",
        "the result of the ordered executor map on the unshuffled concurrent "
        "path is iterated (its exceptions are re-raised by the library, not "
        "discarded)")
    conc = ctx.fn("sedpack.io.dataset_iteration:DatasetIteration."
                  "as_numpy_iterator_concurrent")
    maps = [c for c in conc.calls() if isinstance(c.func, ast.Attribute) and
            c.func.attr == "map" and "executor" in (dotted(c.func.value) or "")]
    if not maps:
        raise AnalysisError("C07.pool: executor.map not found")
    for c in maps:
        p = parent(c)
        consumed = not isinstance(p, ast.Expr)
        # flows into a yield
        cur = c
        yielded = False
        while cur is not None and not isinstance(cur, ast.stmt):
            if isinstance(cur, (ast.YieldFrom, ast.Yield)):
                yielded = True
            cur = parent(cur)
        rep.ob("C07.pool", consumed and yielded, loc=conc.loc(c),
               where=conc.qualname, construct=short(c, 70),
               message="executor.map(...) must be consumed by the generator "
               "(yield from), so a failed shard raises in the consumer")

    # the failure reaches the consumer only if the consumer is never blocked
    # on a queue it does not own (finish_and_reset runs right before the
    # re-raise): same ownership rule as C13.owner
    from sa.rules.c13 import check_owner
    check_owner(ctx, rep, "C07.pool-owner")
    rustrules.check_recv(ctx, rep, "C07.rust-recv")
    rustrules.panic_inventory(ctx, rep, "C07.rust-panics")
    from sa.rules import common as C
    from sa.rules import shared
    shared.check_exit_propagates(ctx, rep, "C07.exit")
    # only the native interface may depend on the native reader (whose
    # receive collapses a dead worker into end-of-stream: known finding
    # C07.rust-recv); routing another interface through it widens the finding
    rep.rule(
        "C07.rust-exposure",
        "RustGenerator / as_numpy_iterator_rust are used by the native "
        "interface only; no other iteration interface is built on them")
    users = []
    n_sites = 0
    for fn in ctx.repo.module(C.ITER_MOD).functions.values():
        if isinstance(fn.node, ast.Lambda):
            continue
        for n in fn.body_nodes():
            hit = (isinstance(n, ast.Attribute) and
                   n.attr == "as_numpy_iterator_rust") or (
                       isinstance(n, ast.Name) and n.id == "RustGenerator")
            if hit:
                n_sites += 1
                if not (fn.qualname.startswith("RustGenerator") or
                        "as_numpy_iterator_rust" in fn.qualname):
                    users.append(f"{fn.qualname}: L{n.lineno}")
    rep.ob("C07.rust-exposure", not users, loc=ctx.fn(C.INTERFACES[4]).loc(),
           where="DatasetIteration", construct=f"other users: {users}"
           if users else f"{n_sites} reference(s), all in the native "
           "interface", message="the native reader's failure semantics must "
           "not leak into the other interfaces")
    # a shard whose arrays have unequal lengths is damaged: the npz reader
    # indexes every array with the common length (no zip truncation), so the
    # damage raises instead of shortening the pass (same rule as
    # C01.npz-reader)
    from sa.rules.c01 import check_npz_reader
    check_npz_reader(ctx, rep, "C07.npz-length")
    # decoder strictness: np.load(allow_pickle=True) accepts any pickle
    # stream as shard content (a damaged file that happens to unpickle to a
    # mapping is read as an empty shard and silently skipped)
    rep.rule(
        "C07.npz-strict",
        "every numpy.load in sedpack's read path leaves allow_pickle off "
        "(frozen fact: with allow_pickle=True content that is neither a zip "
        "nor an .npy file is handed to pickle.load instead of being rejected)")
    n_loads = 0
    for fn in ctx.repo.all_functions():
        if not fn.module.name.startswith("sedpack.io"):
            continue
        for cl in fn.calls():
            if not ctx.is_call(fn, cl, "numpy.load"):
                continue
            n_loads += 1
            ap = ctx.arg(cl, 2, "allow_pickle")
            lax = ap is not None and not (isinstance(ap, ast.Constant) and
                                          ap.value is False)
            star = any(k.arg is None for k in cl.keywords)
            rep.ob("C07.npz-strict", not lax and not star, loc=fn.loc(cl),
                   where=fn.qualname, construct=short(cl, 70),
                   message="the npz decoder must reject content that is not "
                   "an npz archive")
    rep.floor("C07.npz-strict", n_loads, 2, "numpy.load sites")
    # nothing read from the dataset's files / the environment is memoised
    from sa.rules import shared as _shm
    _shm.check_no_memo(ctx, rep, "C07.memo")
    _shm.check_background_results(ctx, rep, "C07.background")
    # the native reader's unit of work: one shard per task, opened (not
    # decoded) in the worker, with the caller's thread count (same check as
    # C14.rust)
    rustrules.check_pulls(ctx, rep, "C07.rust-map")

_LP = "src/sedpack/io/itertools/lazy_pool.py"
_TRY = '''            try:
                result: V | WorkerFailure = self.func(element)
            except BaseException as exc:  # pylint: disable=broad-exception-caught
                # Without forwarding the consumer would wait forever for the
                # result of this element.
                result = WorkerFailure(exc)
            self._results.put(result)
'''
SELFTESTS = [
    dict(rule="C07.npz-strict", name="npz-allow-pickle", expect="fire",
         path="src/sedpack/io/npz/iterate_npz.py",
         old="np.load(file_path)", new="np.load(file_path, allow_pickle=True)"),
    dict(rule="C07.npz-strict", name="npz-allow-pickle-false-twin", expect="silent",
         path="src/sedpack/io/npz/iterate_npz.py",
         old="np.load(file_path)", new="np.load(file_path, allow_pickle=False)"),
    dict(rule="C07.worker", name="remove-try", expect="fire", path=_LP,
         old=_TRY, new="            self._results.put(self.func(element))\n"),
    dict(rule="C07.worker", name="handler-logs-and-continues", expect="fire",
         path=_LP, old=_TRY,
         new="            try:\n                result = self.func(element)\n            except Exception as exc:\n                print(exc)\n                continue\n            self._results.put(result)\n"),
    dict(rule="C07.worker", name="two-handlers-twin", expect="silent", path=_LP,
         old=_TRY,
         new="            try:\n                result = self.func(element)\n            except Exception as exc:\n                result = WorkerFailure(exc)\n            except BaseException as exc:\n                result = WorkerFailure(exc)\n            self._results.put(result)\n"),
    dict(rule="C07.worker", name="consumer-ignores-failure", expect="fire",
         path=_LP,
         old="                self.finish_and_reset()\n                raise next_result.exception\n",
         new="                continue\n"),
    dict(rule="C07.handlers", name="reader-swallows", expect="fire",
         path="src/sedpack/io/flatbuffer/iterate.py",
         old="        with open(file_path, \"rb\") as f:\n            content = f.read()\n",
         new="        try:\n            with open(file_path, \"rb\") as f:\n                content = f.read()\n        except OSError:\n            return\n"),
    dict(rule="C07.handlers", name="reraise-from-twin", expect="silent",
         path="src/sedpack/io/flatbuffer/iterate.py",
         old="        with open(file_path, \"rb\") as f:\n            content = f.read()\n",
         new="        try:\n            with open(file_path, \"rb\") as f:\n                content = f.read()\n        except OSError as e:\n            raise ValueError(str(file_path)) from e\n"),
    dict(rule="C07.handlers", name="skip-missing", expect="fire",
         path="src/sedpack/io/npz/iterate_npz.py",
         old="        shard_content: dict[str, list[AttributeValueT]] = np.load(file_path)\n",
         new="        if not Path(file_path).exists():\n            return\n        shard_content: dict[str, list[AttributeValueT]] = np.load(file_path)\n"),
    dict(rule="C07.handlers", name="glob-paths", expect="fire",
         path="src/sedpack/io/dataset_iteration.py",
         old="        tf_dataset = tf.data.Dataset.from_tensor_slices(shard_paths)\n",
         new="        tf_dataset = tf.data.Dataset.list_files(shard_paths, shuffle=False)\n"),
    dict(rule="C07.handlers", name="reader-early-return", expect="fire",
         path="src/sedpack/io/flatbuffer/iterate.py",
         old="        shard = fbapi_Shard.Shard.GetRootAs(content, 0)\n",
         new="        if not content:\n            return\n        shard = fbapi_Shard.Shard.GetRootAs(content, 0)\n"),
    dict(rule="C07.pool", name="map-discarded", expect="fire",
         path="src/sedpack/io/dataset_iteration.py",
         old="                        yield from itertools.chain.from_iterable(\n                            executor.map(shard_iterator.process_and_list,\n                                         batch))\n",
         new="                        futures = [executor.submit(shard_iterator.process_and_list, b) for b in batch]\n                        executor.map(shard_iterator.process_and_list, batch)\n                        for fut in futures:\n                            if fut.exception() is None:\n                                yield from fut.result()\n"),
]
