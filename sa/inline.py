"""Normalisation by inlining: helpers that do not exist in the reference
decomposition (sa/reference_functions.json - the functions of the pinned tree
on which every rule instance was confirmed) are inlined into their callers
before the rules run, so that "extract method" style refactorings do not
change what the rules see. Analysis only; nothing is executed.

Handled call shapes (callee H not in the reference list, resolved to exactly
one function of the same module, not recursive, plain parameters):
  H(...)                      as an expression statement
  x = H(...) / x: T = H(...)  assignment
  return H(...)
  yield from H(...)           when H is a generator without return value
  f(H(...))                   hoisted into a temporary when H(...) is the
                              first call evaluated in the statement
and @property helpers with a single return expression.
Returns of H must be in tail position (if/else, with, try bodies included);
`if c: return a` followed by more statements is restructured into if/else.
"""
from __future__ import annotations

from sa.model import clone as _clone

import ast
import copy
import json
from pathlib import Path

from sa.model import FunctionInfo, Module, Repo, dotted, parent

REFERENCE = set(json.loads(
    (Path(__file__).parent / "reference_functions.json").read_text()
)["functions"])


# Private single-caller helpers of the reference tree whose rules are written
# against the *inlined* shape (so that "inline method" and "extract method"
# of exactly this helper are both invisible to the rules).
FORCE_INLINE = {
    "sedpack.io.dataset_filler:DatasetFiller._update_infos",
}


def is_reference(fn: FunctionInfo) -> bool:
    return fn.fq in REFERENCE or fn.fq in MOVED


# -- return handling -------------------------------------------------------------
def _always_returns(stmts: list[ast.stmt]) -> bool:
    if not stmts:
        return False
    last = stmts[-1]
    if isinstance(last, (ast.Return, ast.Raise)):
        return True
    if isinstance(last, ast.If):
        return _always_returns(last.body) and _always_returns(last.orelse)
    if isinstance(last, (ast.With, ast.AsyncWith)):
        return _always_returns(last.body)
    if isinstance(last, ast.Try):
        return _always_returns(last.body) and all(
            _always_returns(h.body) for h in last.handlers) and not last.finalbody
    if isinstance(last, ast.Match):
        return all(_always_returns(c.body) for c in last.cases) and any(
            isinstance(c.pattern, ast.MatchAs) and c.pattern.pattern is None
            and c.guard is None for c in last.cases)
    return False


def _has_return(node: ast.AST) -> bool:
    for n in ast.walk(node):
        if isinstance(n, ast.Return):
            return True
    return False


def tailify(stmts: list[ast.stmt], make_result) -> list[ast.stmt] | None:
    """Rewrite a function body so that every `return e` becomes
    make_result(e) (a statement or None); returns must be in tail position.
    None when the shape is not supported."""
    out: list[ast.stmt] = []
    for i, st in enumerate(stmts):
        rest = stmts[i + 1:]
        if isinstance(st, ast.Return):
            r = make_result(st.value)
            if r is not None:
                out.append(ast.copy_location(r, st))
            return out  # anything after a return is dead
        if isinstance(st, ast.If) and (_has_return(st)):
            body_ret = _always_returns(st.body)
            else_ret = _always_returns(st.orelse) if st.orelse else False
            if body_ret and rest and not st.orelse:
                nb = tailify(st.body, make_result)
                ne = tailify(rest, make_result)
                if nb is None or ne is None:
                    return None
                new = ast.If(test=st.test, body=nb or [ast.Pass()],
                             orelse=ne)
                out.append(ast.copy_location(new, st))
                return out
            if not rest or (body_ret and else_ret):
                nb = tailify(st.body, make_result)
                ne = tailify(st.orelse, make_result) if st.orelse else []
                if nb is None or ne is None:
                    return None
                new = ast.If(test=st.test, body=nb or [ast.Pass()], orelse=ne)
                out.append(ast.copy_location(new, st))
                return out if not rest else None
            if body_ret and st.orelse and not else_ret and not _has_return(
                    ast.Module(body=st.orelse, type_ignores=[])):
                nb = tailify(st.body, make_result)
                ne = tailify(st.orelse + rest, make_result)
                if nb is None or ne is None:
                    return None
                new = ast.If(test=st.test, body=nb or [ast.Pass()], orelse=ne)
                out.append(ast.copy_location(new, st))
                return out
            return None
        if isinstance(st, (ast.With, ast.AsyncWith)) and _has_return(st):
            if rest:
                return None
            nb = tailify(st.body, make_result)
            if nb is None:
                return None
            new = copy.copy(st)
            new.body = nb or [ast.Pass()]
            out.append(new)
            return out
        if isinstance(st, ast.Try) and _has_return(st):
            if rest or st.finalbody or st.orelse:
                return None
            nb = tailify(st.body, make_result)
            hs = []
            for h in st.handlers:
                hb = tailify(h.body, make_result)
                if hb is None:
                    return None
                nh = copy.copy(h)
                nh.body = hb or [ast.Pass()]
                hs.append(nh)
            if nb is None:
                return None
            new = copy.copy(st)
            new.body = nb or [ast.Pass()]
            new.handlers = hs
            out.append(new)
            return out
        if isinstance(st, ast.Match) and _has_return(st):
            if rest and not _always_returns([st]):
                return None
            cases = []
            for c in st.cases:
                nb = tailify(c.body, make_result)
                if nb is None:
                    return None
                nc = copy.copy(c)
                nc.body = nb or [ast.Pass()]
                cases.append(nc)
            new = copy.copy(st)
            new.cases = cases
            out.append(new)
            return out
        if _has_return(st) and not isinstance(
                st, (ast.FunctionDef, ast.AsyncFunctionDef, ast.ClassDef)):
            return None  # return inside a loop etc.
        out.append(st)
    return out


# -- renaming ----------------------------------------------------------------------
class _Rename(ast.NodeTransformer):

    def __init__(self, mapping: dict[str, str]):
        self.mapping = mapping

    def visit_Name(self, node: ast.Name):
        if node.id in self.mapping:
            return ast.copy_location(ast.Name(id=self.mapping[node.id],
                                              ctx=node.ctx), node)
        return node

    def visit_arg(self, node: ast.arg):
        return node

    def visit_ExceptHandler(self, node: ast.ExceptHandler):
        if node.name in self.mapping:
            node.name = self.mapping[node.name]
        return self.generic_visit(node)


def _locals_of(fn_node) -> set[str]:
    names: set[str] = set()
    a = fn_node.args
    for x in a.posonlyargs + a.args + a.kwonlyargs:
        names.add(x.arg)
    for n in ast.walk(fn_node):
        if isinstance(n, ast.Name) and isinstance(n.ctx, (ast.Store, ast.Del)):
            names.add(n.id)
        elif isinstance(n, ast.ExceptHandler) and n.name:
            names.add(n.name)
    return names


def _set_loc(nodes: list[ast.stmt], at: ast.AST) -> None:
    for st in nodes:
        for n in ast.walk(st):
            if hasattr(n, "lineno") or isinstance(n, (ast.expr, ast.stmt)):
                n.lineno = getattr(at, "lineno", 1)
                n.end_lineno = getattr(at, "end_lineno", n.lineno)
                n.col_offset = getattr(at, "col_offset", 0)
                n.end_col_offset = getattr(at, "end_col_offset", 0)


def _ancestors_in(root: ast.AST, node: ast.AST) -> list[ast.AST]:
    """Ancestors of `node` below `root` (by search; parent links may be
    missing in cloned trees)."""
    path: list[ast.AST] = []

    def rec(cur, trail):
        if cur is node:
            path.extend(trail)
            return True
        for ch in ast.iter_child_nodes(cur):
            if rec(ch, trail + [cur]):
                return True
        return False

    rec(root, [])
    return path


class Inliner:

    def __init__(self, repo: Repo, resolver):
        self.repo = repo
        self.res = resolver
        self.counter = 0
        self.inlined: list[str] = []
        self.skipped: list[str] = []
        self.introduced: dict[str, set[str]] = {}
        self.struct_locals: dict[str, set[str]] = {}

    def candidate(self, caller: FunctionInfo, call: ast.Call,
                  allow_cm: bool = False):
        targets = [t for t in self.res.resolve_call(caller, call, count=False)
                   if t.kind == "internal" and t.fn is not None]
        others = [t for t in self.res.resolve_call(caller, call, count=False)
                  if t.kind not in ("internal", )]
        if len(targets) != 1 or others:
            return None
        h = targets[0].fn
        if (is_reference(h) and h.fq not in FORCE_INLINE) or isinstance(
                h.node, ast.Lambda) or h is caller:
            return None
        if h.module is not caller.module:
            # another module: only when every global name the helper uses
            # means the same thing in the caller's module (or it uses none)
            import builtins
            hl0 = _locals_of(h.node)
            for n in ast.walk(h.node):
                if isinstance(n, ast.Name) and isinstance(n.ctx, ast.Load) \
                        and n.id not in hl0 and not hasattr(builtins, n.id):
                    a = self.repo.qualify(h.module, n)
                    b = self.repo.qualify(caller.module, n)
                    if a is not None and b is None and \
                            n.id in h.module.imports and \
                            n.id not in caller.module.imports and \
                            n.id not in caller.module.globals and \
                            n.id not in caller.module.classes and \
                            n.id not in caller.module.functions and \
                            n.id not in _locals_of(caller.node):
                        # a name the helper's module imports and the caller's
                        # module does not know at all: the import comes along
                        self._carry_import(h.module, caller.module, n.id)
                        continue
                    if a is None or a != b:
                        return None
        a = h.node.args
        if a.vararg or a.kwarg or any(isinstance(x, ast.Starred)
                                      for x in call.args) or any(
                                          k.arg is None for k in call.keywords):
            return None
        if any(isinstance(n, ast.Call) and any(
                t.fn is h for t in self.res.resolve_call(h, n, count=False)
                if t.kind == "internal") for n in h.body_nodes()):
            return None  # recursive
        if any(isinstance(n, (ast.FunctionDef, ast.AsyncFunctionDef,
                              ast.Global, ast.Nonlocal))
               for n in ast.walk(h.node) if n is not h.node):
            return None
        hl = _locals_of(h.node)
        for n in ast.walk(h.node):
            if isinstance(n, ast.Lambda):
                a2 = n.args
                lam = {x.arg for x in a2.posonlyargs + a2.args + a2.kwonlyargs}
                if a2.vararg:
                    lam.add(a2.vararg.arg)
                if a2.kwarg:
                    lam.add(a2.kwarg.arg)
                if lam & hl:
                    return None
        if h.is_classmethod:
            return None
        allowed = ("staticmethod", "contextmanager") if allow_cm else (
            "staticmethod", )
        if any(d.rsplit(".", 1)[-1] not in allowed for d in h.decorators):
            return None  # a decorator changes what a call means (caches ...)
        return h

    def _carry_import(self, src_mod, dst_mod, name: str) -> None:
        """Copy the import statement that binds `name` in src_mod to the top
        of dst_mod (tree and import table)."""
        for st in src_mod.tree.body:
            if isinstance(st, (ast.Import, ast.ImportFrom)):
                for al in st.names:
                    bound = al.asname or al.name.split(".")[0]
                    if bound == name:
                        new = ast.ImportFrom(
                            module=st.module, names=[ast.alias(
                                name=al.name, asname=al.asname)],
                            level=0) if isinstance(st, ast.ImportFrom) and \
                            not st.level else (ast.Import(names=[ast.alias(
                                name=al.name, asname=al.asname)])
                                if isinstance(st, ast.Import) else None)
                        if new is None:
                            return
                        ast.copy_location(new, dst_mod.tree.body[0])
                        ast.fix_missing_locations(new)
                        # after the module docstring / __future__ imports
                        i = 0
                        while i < len(dst_mod.tree.body) and (isinstance(
                                dst_mod.tree.body[i], ast.Expr) or (isinstance(
                                    dst_mod.tree.body[i], ast.ImportFrom) and
                                dst_mod.tree.body[i].module == "__future__")):
                            i += 1
                        dst_mod.tree.body.insert(i, new)
                        dst_mod.imports[name] = src_mod.imports[name]
                        return

    @staticmethod
    def _struct_class_ok(ci) -> bool:
        """A plain private class outside the reference: no bases, no
        decorators, no class-level state, an __init__, only plain methods that
        are themselves outside the reference."""
        if ci.fq in REFERENCE_CLASSES or ci.node.bases or \
                ci.node.decorator_list or ci.node.keywords:
            return False
        if "__init__" not in ci.methods:
            return False
        for s in ci.node.body:
            if isinstance(s, (ast.FunctionDef, )):
                if s.decorator_list:
                    return False
                continue
            if isinstance(s, ast.Expr) and isinstance(s.value, ast.Constant):
                continue
            if isinstance(s, ast.AnnAssign) and s.value is None:
                continue            # bare annotation
            return False
        return not any(is_reference(m) for m in ci.methods.values())

    @staticmethod
    def _struct_uses_ok(caller: FunctionInfo, name: str, ci, st) -> bool:
        """Every other occurrence of `name` in the caller is `name.attr`
        (attribute access or a call of one of the class's methods), there is
        one binding, and no nested function captures it."""
        stores = [n for n in ast.walk(caller.node) if isinstance(
            n, ast.Name) and n.id == name and isinstance(
                n.ctx, (ast.Store, ast.Del))]
        if len(stores) != 1:
            return False
        for n in ast.walk(caller.node):
            if isinstance(n, (ast.Lambda, ast.FunctionDef,
                              ast.AsyncFunctionDef)) and n is not caller.node \
                    and any(isinstance(x, ast.Name) and x.id == name
                            for x in ast.walk(n)):
                return False
        for n in ast.walk(caller.node):
            if isinstance(n, ast.Name) and n.id == name and isinstance(
                    n.ctx, ast.Load):
                p = parent(n)
                if not (isinstance(p, ast.Attribute) and p.value is n):
                    return False
                if p.attr in ci.methods:
                    pp = parent(p)
                    if not (isinstance(pp, ast.Call) and pp.func is p):
                        return False
        return True

    def bind_params(self, h: FunctionInfo, call: ast.Call, suffix: str,
                    caller: FunctionInfo):
        """Statements binding renamed parameters, and the rename mapping."""
        # helper locals are renamed only where they would capture a name of
        # the caller
        caller_names = _locals_of(caller.node) | {
            n.id for n in ast.walk(caller.node) if isinstance(n, ast.Name)
        } | self.introduced.setdefault(caller.fq, set())
        mapping = {n: (f"{n}__{suffix}" if n in caller_names else n)
                   for n in _locals_of(h.node)}
        self.introduced[caller.fq] |= set(mapping.values())
        stmts: list[ast.stmt] = []
        reassigned = {n.id for n in ast.walk(h.node) if isinstance(
            n, ast.Name) and isinstance(n.ctx, (ast.Store, ast.Del))}
        reassigned |= {n.name for n in ast.walk(h.node) if isinstance(
            n, ast.ExceptHandler) and n.name}

        def bind(param: str, value: ast.AST) -> None:
            # a plain local name that the helper never rebinds is substituted
            # directly (no alias temporary)
            if isinstance(value, ast.Name) and param not in reassigned:
                mapping[param] = value.id
                return
            stmts.append(ast.Assign(
                targets=[ast.Name(id=mapping[param], ctx=ast.Store())],
                value=_clone(value)))

        params = [x.arg for x in h.node.args.posonlyargs + h.node.args.args]
        is_method = h.cls is not None and not h.is_static and params and \
            params[0] in ("self", "cls")
        pos = params
        if is_method:
            recv = call.func.value if isinstance(call.func,
                                                 ast.Attribute) else None
            if recv is None:
                return None
            if isinstance(recv, ast.Name) and recv.id == params[0] and \
                    caller.cls is not None:
                mapping.pop(params[0], None)  # same object, keep the name
            else:
                bind(params[0], recv)
            pos = params[1:]
        given: dict[str, ast.AST] = {}
        for i, a in enumerate(call.args):
            if i >= len(pos):
                return None
            given[pos[i]] = a
        for k in call.keywords:
            given[k.arg] = k.value
        all_params = pos + [x.arg for x in h.node.args.kwonlyargs]
        for p in all_params:
            val = given.get(p)
            if val is None:
                val = h.param_default(p)
                if val is None:
                    return None
            bind(p, val)
        return stmts, mapping

    def inline_body(self, caller: FunctionInfo, call: ast.Call,
                    h: FunctionInfo, make_result, generator_ok=False,
                    result_name: str | None = None,
                    rename_local: dict[str, str] | None = None,
                    keep_returns: bool = False):
        is_gen = any(isinstance(n, (ast.Yield, ast.YieldFrom))
                     for n in h.body_nodes())
        if is_gen and not generator_ok:
            return None
        self.counter += 1
        suffix = f"i{self.counter}"
        bound = self.bind_params(h, call, suffix, caller)
        if bound is None:
            return None
        binds, mapping = bound
        for k, v in (rename_local or {}).items():
            if k in mapping and v not in mapping.values():
                mapping[k] = v
        # `t = H(...)` where H always returns its local `v`: let `v` be `t`
        # (no alias temporary), provided `t` is not also a substituted argument
        if result_name is not None and result_name not in mapping.values():
            rets = [n.value for n in ast.walk(h.node)
                    if isinstance(n, ast.Return)]
            params = {x.arg for x in h.node.args.posonlyargs + h.node.args.args +
                      h.node.args.kwonlyargs}
            if rets and all(isinstance(r, ast.Name) for r in rets) and len(
                    {r.id for r in rets}) == 1 and rets[0].id not in params:
                mapping[rets[0].id] = result_name
                inner = make_result

                def make_result(e, inner=inner):  # noqa: F811
                    if isinstance(e, ast.Name) and e.id == result_name:
                        return None
                    return inner(e)
        body = [_clone(s) for s in h.node.body]
        if body and isinstance(body[0], ast.Expr) and isinstance(
                body[0].value, ast.Constant) and isinstance(
                    body[0].value.value, str):
            body = body[1:]
        # rename first: make_result builds statements over the *caller's*
        # names, which must not be renamed
        ren = _Rename(mapping)
        body = [ren.visit(s) for s in body]
        if keep_returns:
            # the helper's bare `return` ends the caller too (the inlined
            # loop is the caller's last statement)
            if any(isinstance(n, ast.Return) and n.value is not None and not (
                    isinstance(n.value, ast.Constant) and n.value.value is None)
                   for b in body for n in ast.walk(b)):
                return None
        else:
            body = tailify(body, make_result)
            if body is None:
                return None
        out = binds + body
        return out or [ast.Pass()]

    def transform_function(self, caller: FunctionInfo) -> bool:
        changed = False

        def process(stmts: list[ast.stmt]) -> list[ast.stmt]:
            nonlocal changed
            out: list[ast.stmt] = []
            for st in stmts:
                # recurse into compound statements first
                for fld in ("body", "orelse", "finalbody"):
                    sub = getattr(st, fld, None)
                    if isinstance(sub, list) and sub and isinstance(
                            sub[0], ast.stmt) and not isinstance(
                                st, (ast.FunctionDef, ast.AsyncFunctionDef,
                                     ast.ClassDef)):
                        setattr(st, fld, process(sub))
                if isinstance(st, ast.Try):
                    for hd in st.handlers:
                        hd.body = process(hd.body)
                if isinstance(st, ast.Match):
                    for c in st.cases:
                        c.body = process(c.body)
                new = self.inline_statement(caller, st)
                if new is not None:
                    _set_loc(new, st)
                    out += new
                    changed = True
                else:
                    out.append(st)
            return out

        caller.node.body = process(caller.node.body)
        # expression helpers: `def h(p..): return EXPR` called anywhere in an
        # expression (a comprehension element, an argument) with simple
        # arguments is EXPR with the parameters substituted
        inl = self

        class _ExprInline(ast.NodeTransformer):

            def visit_FunctionDef(self, node):
                return node if node is not caller.node else \
                    self.generic_visit(node)

            visit_AsyncFunctionDef = visit_FunctionDef

            def visit_Lambda(self, node):
                return node

            def visit_Call(self, node):
                self.generic_visit(node)
                h = inl.candidate(caller, node)
                if h is None or isinstance(h.node, ast.AsyncFunctionDef):
                    return node
                body = [s for s in h.node.body if not (isinstance(
                    s, ast.Expr) and isinstance(s.value, ast.Constant))]
                if len(body) != 1 or not isinstance(body[0], ast.Return) or \
                        body[0].value is None or any(isinstance(
                            x, (ast.Yield, ast.YieldFrom, ast.Await, ast.Lambda,
                                ast.NamedExpr, ast.ListComp, ast.SetComp,
                                ast.DictComp, ast.GeneratorExp))
                            for x in ast.walk(body[0].value)):
                    return node
                params = [x.arg for x in h.node.args.posonlyargs +
                          h.node.args.args]
                mapping: dict[str, ast.AST] = {}
                pos = params
                if h.cls is not None and not h.is_static and params and \
                        params[0] in ("self", "cls"):
                    if not isinstance(node.func, ast.Attribute):
                        return node
                    mapping[params[0]] = node.func.value
                    pos = params[1:]
                for i, a in enumerate(node.args):
                    if i >= len(pos):
                        return node
                    mapping[pos[i]] = a
                for k in node.keywords:
                    if k.arg is None:
                        return node
                    mapping[k.arg] = k.value
                for p_ in pos + [x.arg for x in h.node.args.kwonlyargs]:
                    if p_ not in mapping:
                        d = h.param_default(p_)
                        if d is None:
                            return node
                        mapping[p_] = d

                def simple(e):
                    return isinstance(e, (ast.Name, ast.Constant)) or (
                        isinstance(e, ast.Attribute) and simple(e.value))
                if not all(simple(v) for v in mapping.values()):
                    return node
                # no local of the helper besides its parameters
                if _locals_of(h.node) - set(mapping):
                    return node

                class _Sub(ast.NodeTransformer):

                    def visit_Name(self, n):
                        if isinstance(n.ctx, ast.Load) and n.id in mapping:
                            return ast.copy_location(_clone(mapping[n.id]), n)
                        return n

                new_e = _Sub().visit(_clone(body[0].value))
                inl.inlined.append(f"{h.fq} into {caller.fq} (expression)")
                nonlocal changed
                changed = True
                return ast.copy_location(new_e, node)

        _ExprInline().visit(caller.node)
        # struct locals: x.attr -> x__attr once no method call on x is left
        for x_ in sorted(self.struct_locals.get(caller.fq, ())):
            pmap = {}
            for p_ in ast.walk(caller.node):
                for ch in ast.iter_child_nodes(p_):
                    pmap[id(ch)] = p_
            left = [n for n in ast.walk(caller.node) if isinstance(
                n, ast.Name) and n.id == x_]
            attrs_ok = bool(left) and all(
                isinstance(pmap.get(id(n)), ast.Attribute) and
                pmap[id(n)].value is n and not (
                    isinstance(pmap.get(id(pmap[id(n)])), ast.Call) and
                    pmap[id(pmap[id(n)])].func is pmap[id(n)])
                for n in left)
            if not attrs_ok:
                continue

            class _Flat(ast.NodeTransformer):

                def visit_Attribute(self, node):
                    self.generic_visit(node)
                    if isinstance(node.value, ast.Name) and node.value.id == x_:
                        return ast.copy_location(ast.Name(
                            id=f"{x_}__{node.attr.lstrip('_')}", ctx=node.ctx),
                            node)
                    return node

            _Flat().visit(caller.node)
            for n_ in ast.walk(caller.node):
                if isinstance(n_, ast.AnnAssign) and isinstance(
                        n_.target, ast.Name):
                    n_.simple = 1
            ast.fix_missing_locations(caller.node)
            changed = True
        return changed

    def inline_statement(self, caller: FunctionInfo,
                         st: ast.stmt) -> list[ast.stmt] | None:
        call = None
        make = None
        gen_ok = False
        # `await H(..)` of a coroutine helper: the helper's body runs here
        if isinstance(st, (ast.Expr, ast.Assign, ast.AnnAssign, ast.Return)) \
                and isinstance(getattr(st, "value", None), ast.Await) and \
                isinstance(st.value.value, ast.Call):
            hh = self.candidate(caller, st.value.value)
            if hh is not None and isinstance(hh.node, ast.AsyncFunctionDef) \
                    and not hh.is_generator():
                st = _clone(st)
                st.value = st.value.value
        # x = C(args) with C a small private class that the reference tree
        # does not have, used only as x.attr / x.method(..): the constructor
        # body runs here on the "object" x, whose attributes become locals
        # x__attr at the end of the function's transformation
        if isinstance(st, (ast.Assign, ast.AnnAssign)) and isinstance(
                st.value, ast.Call) and isinstance(st.value.func, ast.Name):
            tgt0 = st.targets[0] if isinstance(st, ast.Assign) and len(
                st.targets) == 1 else getattr(st, "target", None)
            ci = caller.module.classes.get(st.value.func.id)
            if isinstance(tgt0, ast.Name) and ci is not None and \
                    self._struct_class_ok(ci) and self._struct_uses_ok(
                        caller, tgt0.id, ci, st):
                init = ci.methods["__init__"]
                fake = ast.Call(
                    func=ast.Attribute(value=ast.Name(id=tgt0.id,
                                                      ctx=ast.Load()),
                                       attr="__init__", ctx=ast.Load()),
                    args=st.value.args, keywords=st.value.keywords)
                ast.copy_location(fake, st.value)
                ast.fix_missing_locations(fake)
                body = self.inline_body(caller, fake, init, (lambda e: None))
                if body is not None:
                    self.struct_locals.setdefault(caller.fq, set()).add(tgt0.id)
                    self.inlined.append(
                        f"{init.fq} into {caller.fq} (private class as locals)")
                    return body
        if isinstance(st, ast.Expr) and isinstance(st.value, ast.Call):
            call, make = st.value, (lambda e: None)
        elif isinstance(st, ast.Expr) and isinstance(
                st.value, ast.YieldFrom) and isinstance(st.value.value, ast.Call):
            call, make, gen_ok = st.value.value, (lambda e: None), True
        elif isinstance(st, ast.Assign) and isinstance(st.value, ast.Call) and \
                len(st.targets) == 1:
            tgt = st.targets[0]
            call = st.value
            make = lambda e, tgt=tgt: ast.Assign(  # noqa: E731
                targets=[_clone(tgt)],
                value=e if e is not None else ast.Constant(value=None))
        elif isinstance(st, ast.AnnAssign) and isinstance(st.value, ast.Call):
            tgt, ann = st.target, st.annotation
            call = st.value
            make = lambda e, tgt=tgt, ann=ann: ast.AnnAssign(  # noqa: E731
                target=_clone(tgt), annotation=_clone(ann),
                value=e if e is not None else ast.Constant(value=None),
                simple=1)
        elif isinstance(st, ast.Return) and isinstance(st.value, ast.Call):
            call = st.value
            make = lambda e: ast.Return(value=e)  # noqa: E731
        if call is not None:
            h = self.candidate(caller, call)
            if h is not None:
                rn = None
                if isinstance(st, ast.Assign) and isinstance(st.targets[0],
                                                             ast.Name):
                    rn = st.targets[0].id
                elif isinstance(st, ast.AnnAssign) and isinstance(st.target,
                                                                  ast.Name):
                    rn = st.target.id
                body = self.inline_body(caller, call, h, make, gen_ok, rn)
                if body is not None:
                    self.inlined.append(f"{h.fq} into {caller.fq}")
                    return body
                self.skipped.append(f"{h.fq} into {caller.fq} (shape)")
        # for x in H(...): BODY  with H a non-reference generator that yields
        # at exactly one site: H's body with `yield e` replaced by
        # `x = e; BODY`
        if isinstance(st, (ast.For, ast.AsyncFor)) and isinstance(
                st.iter, ast.Call) and not st.orelse and isinstance(
                    st.target, ast.Name):
            h = self.candidate(caller, st.iter)
            if h is not None:
                ys = [n for n in h.body_nodes()
                      if isinstance(n, (ast.Yield, ast.YieldFrom))]
                plain = len(ys) == 1 and isinstance(ys[0], ast.Yield) and \
                    ys[0].value is not None and isinstance(
                        parent(ys[0]), ast.Expr)
                escapes = any(isinstance(n, (ast.Break, ast.Continue))
                              for b in st.body for n in ast.walk(b))
                if plain and not escapes:
                    # a helper that yields its own loop variable: that
                    # variable simply is the caller's loop variable
                    rl = {}
                    yv = ys[0].value
                    hparams = {x.arg for x in h.node.args.posonlyargs +
                               h.node.args.args + h.node.args.kwonlyargs}
                    if isinstance(yv, ast.Name) and yv.id not in hparams:
                        rl = {yv.id: st.target.id}
                    # is this loop the last statement of the caller (then a
                    # bare return of the generator = return of the caller)?
                    last_stmt = caller.node.body[-1] is st
                    has_ret = any(isinstance(n, ast.Return)
                                  for n in h.body_nodes())
                    body = self.inline_body(caller, st.iter, h,
                                            (lambda e: None), True,
                                            rename_local=rl,
                                            keep_returns=has_ret and last_stmt)
                    if body is not None:
                        tgt, loop_body = st.target, st.body

                        class _Y(ast.NodeTransformer):

                            def visit_Expr(self, node):
                                if isinstance(node.value, ast.Yield) and \
                                        isinstance(node.value.value, ast.Name) \
                                        and node.value.value.id == tgt.id:
                                    return [copy.deepcopy(b) if False else
                                            _clone(b) for b in loop_body]
                                if isinstance(node.value, ast.Yield):
                                    return [ast.Assign(
                                        targets=[_clone(tgt)],
                                        value=node.value.value)] + [
                                            _clone(b) for b in loop_body]
                                return node

                        out = []
                        for b in body:
                            r = _Y().visit(b)
                            out += r if isinstance(r, list) else [r]
                        self.inlined.append(
                            f"{h.fq} into {caller.fq} (generator loop)")
                        return out
        # t = list(H(...)) with H a non-reference generator that yields at
        # exactly one statement: `t = []` + H's body with `yield e` replaced by
        # `t.append(e)` (arguments that name `t` itself are saved first)
        if isinstance(st, (ast.Assign, ast.AnnAssign)) and isinstance(
                st.value, ast.Call) and isinstance(st.value.func, ast.Name) and \
                st.value.func.id == "list" and len(st.value.args) == 1 and \
                not st.value.keywords and isinstance(
                    st.value.args[0], ast.Call):
            tgt = st.targets[0] if isinstance(st, ast.Assign) and len(
                st.targets) == 1 else getattr(st, "target", None)
            gcall = st.value.args[0]
            h = self.candidate(caller, gcall) if isinstance(
                tgt, ast.Name) else None
            if h is not None:
                ys = [n for n in h.body_nodes()
                      if isinstance(n, (ast.Yield, ast.YieldFrom))]
                plain = len(ys) == 1 and isinstance(ys[0], ast.Yield) and \
                    ys[0].value is not None and isinstance(
                        parent(ys[0]), ast.Expr)
                if plain:
                    pre: list[ast.stmt] = []
                    gcall2 = _clone(gcall)
                    self.counter += 1
                    src = f"{tgt.id}__src{self.counter}"
                    hit = False
                    for holder in [gcall2.args] + [[k] for k in gcall2.keywords]:
                        for i, a in enumerate(holder):
                            node = a.value if isinstance(a, ast.keyword) else a
                            if isinstance(node, ast.Name) and node.id == tgt.id:
                                new_n = ast.Name(id=src, ctx=ast.Load())
                                if isinstance(a, ast.keyword):
                                    a.value = new_n
                                else:
                                    holder[i] = new_n
                                hit = True
                    if hit:
                        pre.append(ast.Assign(
                            targets=[ast.Name(id=src, ctx=ast.Store())],
                            value=ast.Name(id=tgt.id, ctx=ast.Load())))
                    # resolve on the original call, bind on the rewritten one
                    gcall2.func = gcall.func
                    body = self.inline_body(caller, gcall2, h, (lambda e: None),
                                            True)
                    if body is not None:
                        tname = tgt.id

                        class _YL(ast.NodeTransformer):

                            def visit_Expr(self, node):
                                if isinstance(node.value, ast.Yield):
                                    return ast.Expr(value=ast.Call(
                                        func=ast.Attribute(
                                            value=ast.Name(id=tname,
                                                           ctx=ast.Load()),
                                            attr="append", ctx=ast.Load()),
                                        args=[node.value.value], keywords=[]))
                                return node

                        out = pre + [ast.Assign(
                            targets=[ast.Name(id=tname, ctx=ast.Store())],
                            value=ast.List(elts=[], ctx=ast.Load()))]
                        for b in body:
                            r = _YL().visit(b)
                            out += r if isinstance(r, list) else [r]
                        self.inlined.append(
                            f"{h.fq} into {caller.fq} (list of generator)")
                        return out
        # with H(...) as x: BODY  with H a non-reference @contextmanager
        # generator that yields at exactly one statement: H's body with
        # `yield e` replaced by `x = e; BODY` (an exception in BODY is thrown
        # at the yield: the same handlers / with-exits run in both forms).
        # BODY must not return / break / continue (the decorator would still
        # run the code after the yield).
        if isinstance(st, ast.With) and len(st.items) == 1 and isinstance(
                st.items[0].context_expr, ast.Call) and (
                    st.items[0].optional_vars is None or isinstance(
                        st.items[0].optional_vars, ast.Name)):
            h = self.candidate(caller, st.items[0].context_expr, allow_cm=True)
            if h is not None and any(d.rsplit(".", 1)[-1] == "contextmanager"
                                     for d in h.decorators):
                ys = [n for n in h.body_nodes()
                      if isinstance(n, (ast.Yield, ast.YieldFrom))]
                plain = len(ys) == 1 and isinstance(ys[0], ast.Yield) and \
                    isinstance(parent(ys[0]), ast.Expr)
                escapes = any(isinstance(n, (ast.Break, ast.Continue, ast.Return,
                                             ast.Yield, ast.YieldFrom))
                              for b in st.body for n in ast.walk(b))
                has_ret = any(isinstance(n, ast.Return) for n in h.body_nodes())
                in_loop = any(isinstance(a, (ast.For, ast.While, ast.AsyncFor))
                              for a in _ancestors_in(h.node, ys[0])) if plain \
                    else True
                if plain and not escapes and not has_ret and not in_loop:
                    tgt = st.items[0].optional_vars
                    rl = {}
                    yv = ys[0].value
                    hparams = {x.arg for x in h.node.args.posonlyargs +
                               h.node.args.args + h.node.args.kwonlyargs}
                    if tgt is not None and isinstance(yv, ast.Name) and \
                            yv.id not in hparams:
                        rl = {yv.id: tgt.id}
                    body = self.inline_body(caller, st.items[0].context_expr, h,
                                            (lambda e: None), True,
                                            rename_local=rl)
                    if body is not None:
                        with_body = st.body

                        class _YW(ast.NodeTransformer):

                            def visit_Expr(self, node):
                                if not isinstance(node.value, ast.Yield):
                                    return node
                                v = node.value.value
                                pre = []
                                if tgt is not None and not (isinstance(
                                        v, ast.Name) and v.id == tgt.id):
                                    pre = [ast.Assign(
                                        targets=[_clone(tgt)],
                                        value=v if v is not None
                                        else ast.Constant(value=None))]
                                return pre + [_clone(b) for b in with_body]

                        out = []
                        for b in body:
                            r = _YW().visit(b)
                            out += r if isinstance(r, list) else [r]
                        self.inlined.append(
                            f"{h.fq} into {caller.fq} (context manager)")
                        return out
        # hoisting: the first call evaluated in a simple statement
        if isinstance(st, (ast.Expr, ast.Assign, ast.AnnAssign, ast.Return,
                           ast.AugAssign)):
            first = self.first_call(st)
            if first is not None and first is not getattr(st, "value", None):
                h = self.candidate(caller, first)
                if h is not None:
                    self.counter += 1
                    tmp = f"inl_result__i{self.counter}"
                    make2 = lambda e, tmp=tmp: ast.Assign(  # noqa: E731
                        targets=[ast.Name(id=tmp, ctx=ast.Store())],
                        value=e if e is not None else ast.Constant(value=None))
                    body = self.inline_body(caller, first, h, make2)
                    if body is not None:
                        target_node = first
                        if isinstance(h.node, ast.AsyncFunctionDef):
                            aw = [n for n in ast.walk(st) if isinstance(
                                n, ast.Await) and n.value is first]
                            if not aw:
                                return None  # coroutine object not awaited here
                            target_node = aw[0]
                        new_st = _ReplaceNode(target_node, ast.Name(
                            id=tmp, ctx=ast.Load())).visit(copy.copy(st))
                        self.inlined.append(f"{h.fq} into {caller.fq} (hoisted)")
                        return body + [new_st]
        return None

    @staticmethod
    def first_call(st: ast.stmt) -> ast.Call | None:
        """The call evaluated first in the statement (innermost-leftmost)."""
        order: list[ast.Call] = []

        def walk(e):
            if isinstance(e, (ast.Lambda, ast.GeneratorExp, ast.ListComp,
                              ast.SetComp, ast.DictComp, ast.IfExp,
                              ast.BoolOp)):
                return
            for c in ast.iter_child_nodes(e):
                walk(c)
            if isinstance(e, ast.Call):
                order.append(e)

        for c in ast.iter_child_nodes(st):
            if isinstance(c, ast.expr):
                walk(c)
        return order[0] if order else None


class _ReplaceNode(ast.NodeTransformer):

    def __init__(self, old: ast.AST, new: ast.AST):
        self.old = old
        self.new = new

    def visit(self, node):
        if node is self.old:
            return ast.copy_location(self.new, node)
        return super().visit(node)


class _PropertyInline(ast.NodeTransformer):
    """self.prop -> body expression for non-reference single-return
    properties of the same class."""

    def __init__(self, props: dict[str, ast.AST]):
        self.props = props
        self.changed = False

    def visit_Attribute(self, node: ast.Attribute):
        self.generic_visit(node)
        if isinstance(node.ctx, ast.Load) and node.attr in self.props and \
                isinstance(node.value, ast.Name) and node.value.id == "self":
            self.changed = True
            return ast.copy_location(_clone(self.props[node.attr]), node)
        return node


REFERENCE_ATTRS: dict[str, list[str]] = json.loads(
    (Path(__file__).parent / "reference_functions.json").read_text()
).get("class_private_attrs", {})


def _private_self_attrs(ci) -> set[str]:
    out = set()
    for m in ci.methods.values():
        for n in ast.walk(m.node):
            if isinstance(n, ast.Attribute) and isinstance(
                    n.value, ast.Name) and n.value.id == "self" and isinstance(
                        n.ctx, ast.Store) and n.attr.startswith("_") and \
                    not n.attr.startswith("__"):
                out.add(n.attr)
    return out


REFERENCE_SIGS: dict[str, list[str]] = json.loads(
    (Path(__file__).parent / "reference_functions.json").read_text()
).get("signatures", {})
# functions of the current tree that ARE reference functions under another
# name / in another module (filled by normalise_function_renames)
MOVED: dict[str, str] = {}


REFERENCE_DIGESTS: dict[str, str] = json.loads(
    (Path(__file__).parent / "reference_functions.json").read_text()
).get("body_digests", {})


def body_digest(fn_node) -> str:
    """Digest of a function body with parameters renamed positionally and the
    docstring dropped (used to recognise rename + parameter rename)."""
    import hashlib as _h
    from sa.model import clone as _cl
    node = _cl(fn_node)
    a = node.args
    params = [x.arg for x in a.posonlyargs + a.args + a.kwonlyargs]
    if a.vararg:
        params.append(a.vararg.arg)
    if a.kwarg:
        params.append(a.kwarg.arg)
    m = {p: f"__p{i}" for i, p in enumerate(params)}
    body = [s for s in node.body if not (isinstance(s, ast.Expr) and isinstance(
        s.value, ast.Constant) and isinstance(s.value.value, str))]
    for s in body:
        for n in ast.walk(s):
            if isinstance(n, ast.Name) and n.id in m:
                n.id = m[n.id]
    txt = "\n".join(ast.dump(s, annotate_fields=False, include_attributes=False)
                    for s in body)
    return _h.sha256(txt.encode()).hexdigest()[:16]


def normalise_function_renames(repo: Repo) -> list[str]:
    """A reference function that vanished while exactly one new function with
    the same parameter list appeared in the same scope is a rename: the new
    name is mapped back everywhere. One that re-appeared under the same name
    and parameter list in another module is a move: it keeps its reference
    status (never inlined) and the old module-qualified name finds it."""
    log: list[str] = []
    MOVED.clear()
    cur = {f.fq: f for f in repo.all_functions(hand_written=True)
           if not isinstance(f.node, ast.Lambda)}
    vanished = [fq for fq in REFERENCE_SIGS if fq not in cur]
    if not vanished:
        return log
    new = [f for fq, f in cur.items() if fq not in REFERENCE and not any(
        d.rsplit(".", 1)[-1] in ("property", "cached_property", "setter")
        for d in f.decorators)]
    ref_names = {fq.split(":")[1].rsplit(".", 1)[-1] for fq in REFERENCE_SIGS}

    def scope_of(q: str) -> str:
        return q.rsplit(".", 1)[0] if "." in q else ""

    taken: set[str] = set()
    renames: dict[str, str] = {}
    for v in vanished:
        mod, qual = v.split(":")
        old_name = qual.rsplit(".", 1)[-1]
        same = [f for f in new if f.module.name == mod and
                scope_of(f.qualname) == scope_of(qual) and
                f.params() == REFERENCE_SIGS[v] and f.fq not in taken]
        if not same:
            # parameters renamed along with the function: same arity, same
            # receiver convention
            same = [f for f in new if f.module.name == mod and
                    scope_of(f.qualname) == scope_of(qual) and
                    len(f.params()) == len(REFERENCE_SIGS[v]) and
                    [p for p in f.params()[:1] if p in ("self", "cls")] ==
                    [p for p in REFERENCE_SIGS[v][:1] if p in ("self", "cls")]
                    and f.fq not in taken and (
                        # the first parameter kept its name (the convention
                        # so far), or the body is the reference body up to
                        # the parameter names
                        f.params()[:1] == REFERENCE_SIGS[v][:1] or
                        REFERENCE_DIGESTS.get(v) == body_digest(f.node))]
        if len(same) == 1 and same[0].name not in ref_names and \
                same[0].name not in renames:
            taken.add(same[0].fq)
            renames[same[0].name] = old_name
            log.append(f"function {same[0].fq} read as {old_name} (renamed)")
            continue
        moved = [f for f in new if f.module.name != mod and
                 f.name == old_name and f.params() == REFERENCE_SIGS[v] and
                 f.fq not in taken]
        if len(moved) == 1:
            taken.add(moved[0].fq)
            MOVED[moved[0].fq] = v
            log.append(f"function {v} found as {moved[0].fq} (moved)")
    if renames:
        for m in repo.hand_written():
            for n in ast.walk(m.tree):
                if isinstance(n, (ast.FunctionDef, ast.AsyncFunctionDef)) and \
                        n.name in renames:
                    n.name = renames[n.name]
                elif isinstance(n, ast.Attribute) and n.attr in renames:
                    n.attr = renames[n.attr]
                elif isinstance(n, ast.Name) and n.id in renames:
                    n.id = renames[n.id]
                elif isinstance(n, ast.alias) and n.name in renames:
                    n.name = renames[n.name]
    return log


def _init_values(ci) -> dict[str, str]:
    """attr -> text of the value assigned to self.<attr> in __init__ (first
    assignment), for private attributes."""
    out: dict[str, str] = {}
    init = ci.methods.get("__init__")
    if init is None:
        return out
    for n in ast.walk(init.node):
        t = v = None
        if isinstance(n, ast.Assign) and len(n.targets) == 1:
            t, v = n.targets[0], n.value
        elif isinstance(n, ast.AnnAssign) and n.value is not None:
            t, v = n.target, n.value
        if isinstance(t, ast.Attribute) and isinstance(
                t.value, ast.Name) and t.value.id == "self" and \
                t.attr.startswith("_") and t.attr not in out:
            out[t.attr] = ast.unparse(v)
    return out


def normalise_renames(repo: Repo) -> list[str]:
    """A private attribute of a reference class that vanished while exactly
    one new private attribute appeared in that class is a rename: the new
    name is mapped back (everywhere: the new name is known nowhere in the
    reference tree), so rules keep reading the attribute they know."""
    log: list[str] = []
    known = {a for v in REFERENCE_ATTRS.values() for a in v}
    renames: dict[str, str] = {}
    for mod in repo.hand_written():
        for ci in mod.classes.values():
            ref = REFERENCE_ATTRS.get(ci.fq)
            if ref is None:
                continue
            cur = _private_self_attrs(ci)
            missing = set(ref) - cur
            new = cur - set(ref)
            if len(missing) == 1 and len(new) == 1:
                a, b = new.pop(), missing.pop()
                if a not in known and a not in renames:
                    renames[a] = b
                    log.append(f"attribute {ci.name}.{a} read as {b} "
                               "(renamed private attribute)")
            elif missing and len(missing) == len(new):
                # several renames at once: paired by the value __init__
                # assigns (the reference's init value, unique on both sides)
                ref_init = REFERENCE_INITS.get(ci.fq, {})
                cur_init = _init_values(ci)
                pairs = {}
                for b in missing:
                    rv = ref_init.get(b)
                    cands = [a for a in new if rv is not None and
                             cur_init.get(a) == rv]
                    if len(cands) == 1 and sum(
                            1 for x in missing if ref_init.get(x) == rv) == 1:
                        pairs[cands[0]] = b
                if len(pairs) == len(missing) and not any(
                        a in known or a in renames for a in pairs):
                    for a, b in pairs.items():
                        renames[a] = b
                        log.append(f"attribute {ci.name}.{a} read as {b} "
                                   "(renamed private attribute, paired by "
                                   "its initial value)")
    if renames:
        for mod in repo.hand_written():
            for n in ast.walk(mod.tree):
                if isinstance(n, ast.Attribute) and n.attr in renames:
                    n.attr = renames[n.attr]
    return log


REFERENCE_INITS: dict[str, dict[str, str]] = json.loads(
    (Path(__file__).parent / "reference_functions.json").read_text()
).get("class_attr_inits", {})


REFERENCE_CLASSES = set(json.loads(
    (Path(__file__).parent / "reference_functions.json").read_text()
).get("classes", []))


def normalise_namedtuples(repo: Repo) -> list[str]:
    """A NamedTuple class that does not exist in the reference tree is a
    bare tuple somebody gave names to: constructor calls become tuples (in
    field order) and `x.field` reads become `x[i]`, so rules keep seeing the
    tuple."""
    log: list[str] = []
    for mod in repo.hand_written():
        new_nt: dict[str, list[tuple[str, ast.AST | None]]] = {}
        for ci in mod.classes.values():
            if ci.fq in REFERENCE_CLASSES:
                continue
            bases = [dotted(b) or "" for b in ci.node.bases]
            if not any(b.endswith("NamedTuple") for b in bases):
                continue
            fields = [(st.target.id, st.value) for st in ci.node.body
                      if isinstance(st, ast.AnnAssign) and
                      isinstance(st.target, ast.Name)]
            if fields and not ci.methods:
                new_nt[ci.name] = fields
        if not new_nt:
            continue
        all_fields = {f for fl in new_nt.values() for f, _ in fl}
        field_index = {}
        for cname, fl in new_nt.items():
            for i, (f, _) in enumerate(fl):
                field_index.setdefault(f, set()).add(i)

        class T(ast.NodeTransformer):

            def visit_Call(self, node: ast.Call):
                self.generic_visit(node)
                name = dotted(node.func)
                if name in new_nt and not any(
                        isinstance(a, ast.Starred) for a in node.args) and \
                        all(k.arg for k in node.keywords):
                    fl = new_nt[name]
                    vals: list[ast.AST | None] = [None] * len(fl)
                    for i, a in enumerate(node.args[:len(fl)]):
                        vals[i] = a
                    for k in node.keywords:
                        for i, (f, _) in enumerate(fl):
                            if f == k.arg:
                                vals[i] = k.value
                    for i, (f, dflt) in enumerate(fl):
                        if vals[i] is None:
                            vals[i] = _clone(dflt) if dflt is not None else None
                    if all(v is not None for v in vals):
                        return ast.copy_location(
                            ast.Tuple(elts=vals, ctx=ast.Load()), node)
                return node

            def visit_Attribute(self, node: ast.Attribute):
                self.generic_visit(node)
                p = parent(node)
                if isinstance(node.ctx, ast.Load) and node.attr in all_fields \
                        and len(field_index[node.attr]) == 1 and isinstance(
                            node.value, ast.Name) and node.value.id not in (
                                "self", "cls") and not (
                                    isinstance(p, ast.Call) and p.func is node):
                    i = next(iter(field_index[node.attr]))
                    return ast.copy_location(ast.Subscript(
                        value=node.value, slice=ast.Constant(value=i),
                        ctx=ast.Load()), node)
                return node

        T().visit(mod.tree)
        ast.fix_missing_locations(mod.tree)
        log.append(f"{mod.name}: NamedTuple {sorted(new_nt)} read as tuples")
    return log


REFERENCE_CONSTANTS: dict[str, list[str]] = json.loads(
    (Path(__file__).parent / "reference_functions.json").read_text()
).get("module_constants", {})


def normalise_constants(repo: Repo) -> list[str]:
    """A module-level name bound once to a literal (str / int / float /
    bytes / bool) that the reference tree does not have is the literal it
    names: loads of it - in its module and wherever it is imported by
    `from M import NAME` - are replaced (a literal hoisted into a named
    constant is invisible to the rules)."""
    log: list[str] = []
    for mod in repo.hand_written():
        known = set(REFERENCE_CONSTANTS.get(mod.name, ()))
        cands: dict[str, ast.AST] = {}
        for st in mod.tree.body:
            t = v = None
            if isinstance(st, ast.Assign) and len(st.targets) == 1 and \
                    isinstance(st.targets[0], ast.Name):
                t, v = st.targets[0].id, st.value
            elif isinstance(st, ast.AnnAssign) and isinstance(
                    st.target, ast.Name) and st.value is not None:
                t, v = st.target.id, st.value
            if t and isinstance(v, ast.Constant) and isinstance(
                    v.value, (str, int, float, bytes, bool)) and \
                    t not in known and not t.startswith("__"):
                cands[t] = v
            # a generic alias of an imported class (`_Q = queue.Queue[T]`)
            elif t and isinstance(v, ast.Subscript) and t not in known and \
                    t not in mod.classes and t not in mod.functions:
                base = v.value
                d = dotted(base)
                if d and d.split(".")[0] in mod.imports and not any(
                        isinstance(x, (ast.Call, ast.Lambda))
                        for x in ast.walk(v)):
                    cands[t] = v
        for name in list(cands):
            stores = [n for n in ast.walk(mod.tree) if isinstance(
                n, ast.Name) and n.id == name and isinstance(
                    n.ctx, (ast.Store, ast.Del))]
            globs = [n for n in ast.walk(mod.tree) if isinstance(
                n, (ast.Global, ast.Nonlocal)) and name in n.names]
            params = [n for n in ast.walk(mod.tree) if isinstance(
                n, ast.arg) and n.arg == name]
            if len(stores) != 1 or globs or params:
                del cands[name]
        if not cands:
            continue
        # importers: from <mod> import NAME [as ALIAS]
        targets: list[tuple] = [(mod, {n: n for n in cands})]
        for other in repo.hand_written():
            if other is mod:
                continue
            amap = {}
            for st in other.tree.body:
                if isinstance(st, ast.ImportFrom) and not st.level and \
                        st.module == mod.name:
                    for al in st.names:
                        if al.name in cands:
                            amap[al.asname or al.name] = al.name
            if amap:
                # the alias must not be rebound in the importer
                ok = {a: n for a, n in amap.items() if not any(
                    isinstance(x, ast.Name) and x.id == a and isinstance(
                        x.ctx, (ast.Store, ast.Del))
                    for x in ast.walk(other.tree)) and not any(
                        isinstance(x, ast.arg) and x.arg == a
                        for x in ast.walk(other.tree))}
                if ok:
                    targets.append((other, ok))
        n_rep = 0
        for m2, amap in targets:

            class _C(ast.NodeTransformer):

                def visit_Name(self, n):
                    nonlocal n_rep
                    if isinstance(n.ctx, ast.Load) and n.id in amap:
                        n_rep += 1
                        cv = cands[amap[n.id]]
                        return ast.copy_location(
                            ast.Constant(value=cv.value) if isinstance(
                                cv, ast.Constant) else _clone(cv), n)
                    return n

            _C().visit(m2.tree)
            ast.fix_missing_locations(m2.tree)
        if n_rep:
            log.append(f"{mod.name}: module constant(s) {sorted(cands)} read "
                       f"as their literals ({n_rep} use(s))")
    return log


def normalise_kwargs_attrs(repo: Repo) -> list[str]:
    """A private attribute assigned once (in __init__) to a dict display /
    dict(k=v) with literal string keys and read only as `**self.X` in calls
    of the same class is the repeated keyword list it abbreviates: one
    attribute per key (the reference's `_<key>` name when it is free),
    constants written at the call."""
    log: list[str] = []
    for mod in repo.hand_written():
        for ci in mod.classes.values():
            init = ci.methods.get("__init__")
            if init is None:
                continue
            stores: dict[str, list] = {}
            loads: dict[str, list] = {}
            for m in ci.methods.values():
                if isinstance(m.node, ast.Lambda):
                    continue
                for n in ast.walk(m.node):
                    if isinstance(n, ast.Attribute) and isinstance(
                            n.value, ast.Name) and n.value.id == "self" and \
                            n.attr.startswith("_"):
                        (stores if isinstance(n.ctx, (ast.Store, ast.Del))
                         else loads).setdefault(n.attr, []).append((m, n))
            ref = set(REFERENCE_ATTRS.get(ci.fq, ()))
            cur = set(stores) | set(loads)
            for attr, sts in stores.items():
                if len(sts) != 1 or sts[0][0] is not init:
                    continue
                tgt = sts[0][1]
                asg = parent(tgt)
                if not isinstance(asg, (ast.Assign, ast.AnnAssign)) or \
                        asg not in init.node.body:
                    continue
                val = asg.value
                items = None
                if isinstance(val, ast.Dict) and val.keys and all(
                        isinstance(k, ast.Constant) and isinstance(k.value, str)
                        for k in val.keys):
                    items = [(k.value, v) for k, v in zip(val.keys, val.values)]
                elif isinstance(val, ast.Call) and isinstance(
                        val.func, ast.Name) and val.func.id == "dict" and \
                        not val.args and val.keywords and all(
                            k.arg for k in val.keywords):
                    items = [(k.arg, k.value) for k in val.keywords]
                if not items:
                    continue
                uses = loads.get(attr, [])
                if not uses or not all(
                        isinstance(parent(n), ast.keyword) and
                        parent(n).arg is None and isinstance(
                            parent(parent(n)), ast.Call)
                        for _m, n in uses):
                    continue
                names = {}
                for k, v in items:
                    if isinstance(v, ast.Constant):
                        names[k] = None
                    else:
                        cand = f"_{k}"
                        names[k] = cand if (cand in ref and cand not in cur) \
                            else f"{attr}__{k}"
                new_stmts = []
                for k, v in items:
                    if names[k] is not None:
                        s = ast.Assign(targets=[ast.Attribute(
                            value=ast.Name(id="self", ctx=ast.Load()),
                            attr=names[k], ctx=ast.Store())], value=v)
                        new_stmts.append(ast.copy_location(s, asg))
                i = init.node.body.index(asg)
                init.node.body[i:i + 1] = new_stmts or [ast.Pass()]
                for _m, n in uses:
                    kw = parent(n)
                    call = parent(kw)
                    j = call.keywords.index(kw)
                    call.keywords[j:j + 1] = [ast.keyword(
                        arg=k, value=(_clone(v) if names[k] is None else
                                      ast.Attribute(
                                          value=ast.Name(id="self",
                                                         ctx=ast.Load()),
                                          attr=names[k], ctx=ast.Load())))
                        for k, v in items]
                ast.fix_missing_locations(mod.tree)
                log.append(f"attribute {ci.name}.{attr} (keyword dictionary) "
                           f"read as {sorted(x for x in names.values() if x)}")
    return log


def normalise_closure_defs(repo: Repo) -> list[str]:
    """A nested `def f(<plain params>): return EXPR` (docstring allowed, no
    decorator) that is not in the reference and whose name is only *loaded*,
    exactly once, in the enclosing function after the def is the lambda
    `lambda <params>: EXPR` written at that use (the pinned spelling of
    callbacks handed to libraries)."""
    log: list[str] = []
    for fn in list(repo.all_functions(hand_written=True)):
        if isinstance(fn.node, ast.Lambda):
            continue
        for idx, st in enumerate(list(fn.node.body)):
            _closure_in_block(fn, fn.node, log)
            break
    return log


def _closure_in_block(fn: FunctionInfo, owner: ast.AST, log: list[str]) -> None:
    for fld in ("body", "orelse", "finalbody"):
        blk = getattr(owner, fld, None)
        if not (isinstance(blk, list) and blk and isinstance(blk[0], ast.stmt)):
            continue
        for st in list(blk):
            if isinstance(st, ast.FunctionDef) and owner is not None and \
                    st is not fn.node and not st.decorator_list:
                inner_fq = f"{fn.fq}.<locals>.{st.name}"
                if inner_fq in REFERENCE:
                    continue
                a = st.args
                body = [s for s in st.body if not (isinstance(
                    s, ast.Expr) and isinstance(s.value, ast.Constant))]
                if a.vararg or a.kwarg or a.kwonlyargs or a.posonlyargs or \
                        a.defaults or len(body) != 1 or not isinstance(
                            body[0], ast.Return) or body[0].value is None or \
                        any(isinstance(x, (ast.Yield, ast.YieldFrom, ast.Await))
                            for x in ast.walk(body[0])):
                    continue
                uses = [x for x in ast.walk(fn.node) if isinstance(
                    x, ast.Name) and x.id == st.name]
                if len(uses) != 1 or not isinstance(uses[0].ctx, ast.Load):
                    continue
                use = uses[0]
                pu = parent(use)
                if isinstance(pu, ast.Call) and pu.func is use:
                    continue          # called directly: the inliner's business
                if any(use is x for x in ast.walk(st)):
                    continue
                lam = ast.Lambda(
                    args=ast.arguments(posonlyargs=[], args=[
                        ast.arg(arg=x.arg) for x in a.args], kwonlyargs=[],
                        kw_defaults=[], defaults=[]),
                    body=_clone(body[0].value))
                ast.copy_location(lam, use)
                root_stmt = use
                while parent(root_stmt) is not None and not isinstance(
                        root_stmt, ast.stmt):
                    root_stmt = parent(root_stmt)
                _ReplaceNode(use, lam).visit(root_stmt)
                blk.remove(st)
                if not blk:
                    blk.append(ast.Pass())
                ast.fix_missing_locations(fn.node)
                log.append(f"closure {inner_fq} written as a lambda at its use")
            elif not isinstance(st, (ast.FunctionDef, ast.AsyncFunctionDef,
                                     ast.ClassDef)):
                _closure_in_block(fn, st, log)
                if isinstance(st, ast.Try):
                    for hd in st.handlers:
                        _closure_in_block(fn, hd, log)


def normalise_static_as_class(repo) -> list[str]:
    """A method that the reference has as a @staticmethod and that is now a
    @classmethod using `cls` where it named its own class: with no subclass
    of that class anywhere in the program `cls` IS the class, so the method
    reads as the static method it was."""
    log: list[str] = []
    bases: set[str] = set()
    for mod in repo.modules.values():
        for n in ast.walk(mod.tree):
            if isinstance(n, ast.ClassDef):
                for b in n.bases:
                    for x in ast.walk(b):
                        if isinstance(x, ast.Name):
                            bases.add(x.id)
                        elif isinstance(x, ast.Attribute):
                            bases.add(x.attr)
    for mname, mod in repo.modules.items():
        if mod not in repo.hand_written():
            continue
        for cls in [n for n in ast.walk(mod.tree)
                    if isinstance(n, ast.ClassDef)]:
            if cls.name in bases:
                continue
            for m in cls.body:
                if not isinstance(m, (ast.FunctionDef, ast.AsyncFunctionDef)):
                    continue
                ref = REFERENCE_SIGS.get(f"{mname}:{cls.name}.{m.name}")
                decos = [ast.unparse(d) for d in m.decorator_list]
                if ref is None or "classmethod" not in decos or \
                        not m.args.args or m.args.args[0].arg != "cls" or \
                        (ref and ref[0] == "cls") or \
                        len(ref) != len(m.args.args) - 1 + len(
                            m.args.kwonlyargs):
                    continue
                if any(isinstance(x, ast.Name) and x.id == "cls" and
                       isinstance(x.ctx, (ast.Store, ast.Del))
                       for x in ast.walk(m)):
                    continue
                for x in ast.walk(m):
                    if isinstance(x, ast.Name) and x.id == "cls":
                        x.id = cls.name
                m.args.args = m.args.args[1:]
                for d in m.decorator_list:
                    if ast.unparse(d) == "classmethod":
                        d.id = "staticmethod"
                log.append(f"{mname}:{cls.name}.{m.name}: classmethod of a "
                           "class without subclasses read as the static "
                           "method of the reference")
    return log


def normalise(repo: Repo, resolver_factory, max_rounds: int = 3):
    """Return (repo', log): repo with non-reference helpers inlined."""
    log: list[str] = []
    klog = normalise_constants(repo) + normalise_kwargs_attrs(repo)
    if klog:
        log += klog
        repo = Repo(root=repo.root, overlay=repo.overlay, trees={
            name: mod.tree for name, mod in repo.modules.items()})
    rlog = normalise_function_renames(repo) + normalise_renames(repo) + \
        normalise_namedtuples(repo)
    if rlog:
        log += rlog
        repo = Repo(root=repo.root, overlay=repo.overlay, trees={
            name: mod.tree for name, mod in repo.modules.items()})
    clog = normalise_closure_defs(repo)
    if clog:
        log += clog
        repo = Repo(root=repo.root, overlay=repo.overlay, trees={
            name: mod.tree for name, mod in repo.modules.items()})
    slog = normalise_static_as_class(repo)
    if slog:
        log += slog
        repo = Repo(root=repo.root, overlay=repo.overlay, trees={
            name: mod.tree for name, mod in repo.modules.items()})
    from sa.dispatch import normalise_dispatch
    dlog: list[str] = []
    for name, mod in repo.modules.items():
        if mod in repo.hand_written():
            dlog += [f"{name}: {x}" for x in normalise_dispatch(mod.tree)]
    if dlog:
        log += dlog
        repo = Repo(root=repo.root, overlay=repo.overlay, trees={
            name: mod.tree for name, mod in repo.modules.items()})
    for _ in range(max_rounds):
        new_fns = [f for f in repo.all_functions(hand_written=True)
                   if (not is_reference(f) or f.fq in FORCE_INLINE) and
                   not isinstance(f.node, ast.Lambda)]
        if not new_fns:
            break
        res = resolver_factory(repo)
        inl = Inliner(repo, res)
        changed_any = False
        for fn in repo.all_functions(hand_written=True):
            if fn in new_fns and False:
                continue
            if inl.transform_function(fn):
                changed_any = True
        # properties
        for mod in repo.hand_written():
            for ci in mod.classes.values():
                props = {}
                for name, m in ci.methods.items():
                    if not is_reference(m) and "property" in m.decorators:
                        body = [s for s in m.node.body if not (isinstance(
                            s, ast.Expr) and isinstance(s.value, ast.Constant))]
                        if len(body) == 1 and isinstance(body[0], ast.Return) \
                                and body[0].value is not None:
                            props[name] = body[0].value
                if props:
                    for m in ci.methods.values():
                        if m.name in props:
                            continue
                        t = _PropertyInline(props)
                        m.node.body = [t.visit(s) for s in m.node.body]
                        if t.changed:
                            changed_any = True
                            log.append(f"property {ci.name}.{sorted(props)} "
                                       f"into {m.qualname}")
        log += inl.inlined
        log += ["skipped " + s for s in inl.skipped]
        if not changed_any:
            break
        trees = {}
        for name, mod in repo.modules.items():
            ast.fix_missing_locations(mod.tree)
            trees[name] = mod.tree
        repo = Repo(root=repo.root, overlay=repo.overlay, trees=trees)
        # drop helper definitions that no call can reach any more
        inlined_names = {x.split(" into ")[0] for x in inl.inlined}
        res2 = resolver_factory(repo)
        removed = False
        for h in [f for f in repo.all_functions(hand_written=True)
                  if f.fq in inlined_names]:
            used = False
            for fn in repo.all_functions(hand_written=True):
                if fn is h:
                    continue
                for c in fn.calls():
                    if any(t.fn is h for t in res2.resolve_call(fn, c, count=False)
                           if t.kind == "internal"):
                        used = True
                        break
                if used:
                    break
            if not used:
                # references that are not calls (passed as a value)
                for mod in repo.hand_written():
                    for n in ast.walk(mod.tree):
                        if isinstance(n, (ast.Attribute, ast.Name)) and (
                                getattr(n, "attr", None) == h.name or
                                getattr(n, "id", None) == h.name):
                            p = parent(n)
                            if not (isinstance(p, ast.Call) and p.func is n):
                                used = True
            if not used:
                p = parent(h.node)
                if p is not None and isinstance(getattr(p, "body", None), list) \
                        and h.node in p.body:
                    p.body.remove(h.node)
                    if not p.body:
                        p.body.append(ast.Pass())
                    log.append(f"removed inlined helper {h.fq}")
                    removed = True
        if removed:
            repo = Repo(root=repo.root, overlay=repo.overlay, trees={
                name: mod.tree for name, mod in repo.modules.items()})
    # aliases introduced by parameter binding (`q = self._queue`) are read
    # as their chains, like hand-written ones
    from sa.dispatch import AliasInliner
    alog: list[str] = []
    for name, mod in repo.modules.items():
        if mod in repo.hand_written():
            a = AliasInliner()
            a.visit(mod.tree)
            if a.log:
                ast.fix_missing_locations(mod.tree)
                alog += [f"{name}: {x}" for x in a.log]
    if alog:
        log += alog
        repo = Repo(root=repo.root, overlay=repo.overlay, trees={
            name: mod.tree for name, mod in repo.modules.items()})
    return repo, log
