"""Checker self-validation (thorough tier): seeded variants are analysed in
memory through the overlay. A rule that misses its seed, or fires on a
behaviour-preserving twin, makes the run ANALYSIS-ERROR: a broken checker is
not believed. Output never uses the `VIOLATION property=` format."""
from __future__ import annotations

import os
from concurrent.futures import ProcessPoolExecutor

from sa.model import AnalysisError, repo_root
from sa.report import Report, load_known


def _apply(st: dict, root) -> dict[str, str] | None:
    overlay: dict[str, str] = {}
    edits = st.get("edits") or [st]
    for e in edits:
        p = root / e["path"]
        text = overlay.get(e["path"])
        if text is None:
            text = p.read_text(encoding="utf-8")
        if text.count(e["old"]) != 1:
            return None
        overlay[e["path"]] = text.replace(e["old"], e["new"])
    return overlay


def apply_unified_diff(diff_text: str, root) -> dict[str, str] | None:
    """Apply a unified diff (git format) in memory to the files under root.
    Returns {relative path: new text} or None when a hunk does not match."""
    import re
    overlay: dict[str, str] = {}
    cur = None
    lines = diff_text.splitlines()
    i = 0
    hunks: dict[str, list] = {}
    while i < len(lines):
        ln = lines[i]
        if ln.startswith("+++ "):
            cur = ln[4:].strip()
            cur = cur[2:] if cur.startswith("b/") else cur
            hunks[cur] = []
        elif ln.startswith("@@") and cur is not None:
            m = re.match(r"@@ -(\d+)(?:,(\d+))? \+(\d+)(?:,(\d+))? @@", ln)
            if not m:
                return None
            old_start = int(m.group(1))
            body = []
            i += 1
            while i < len(lines) and not lines[i].startswith(("@@", "diff ",
                                                               "--- ", "+++ ")):
                if lines[i].startswith("\\"):
                    i += 1
                    continue
                body.append(lines[i])
                i += 1
            hunks[cur].append((old_start, body))
            continue
        i += 1
    for rel, hs in hunks.items():
        if rel == "/dev/null" or not hs:
            continue
        p = root / rel
        src = p.read_text(encoding="utf-8").splitlines() if p.exists() else []
        out: list[str] = []
        pos = 0
        for old_start, body in hs:
            start = max(old_start - 1, 0)
            # allow small offsets
            want = [b[1:] for b in body if b[:1] in (" ", "-")]
            found = None
            for off in range(0, 60):
                for cand in (start + off, start - off):
                    if cand >= pos and src[cand:cand + len(want)] == want:
                        found = cand
                        break
                if found is not None:
                    break
            if found is None:
                return None
            out += src[pos:found]
            for b in body:
                if b[:1] == "+":
                    out.append(b[1:])
                elif b[:1] == " ":
                    out.append(b[1:])
                elif b == "":
                    out.append("")
            pos = found + len(want)
        out += src[pos:]
        overlay[rel] = "\n".join(out) + "\n"
    return overlay


def _seeded(args) -> dict:
    pid, modname, name = args
    import importlib
    import json
    from pathlib import Path
    from sa.context import Context
    from sa.report import VERIF
    mod = importlib.import_module(modname)
    root = repo_root()
    res = {"rule": "seeded-corpus", "name": name, "expect": "fire"}
    diff = (VERIF / "seeded" / name / "patch.diff").read_text()
    overlay = apply_unified_diff(diff, root)
    if overlay is None:
        res["status"] = "not-applicable (patch does not apply to the current tree)"
        return res
    rep = Report(pid, "selftest")
    try:
        ctx = Context(tier="quick", overlay=overlay)
        from sa.report import run_rules
        run_rules(mod, ctx, rep, pid)
        known = {f["key"] for f in load_known().get("findings", [])}
        vs = [v for v in rep.violations if v.key(pid) not in known]
        res["reported"] = [f"{v.rule} {v.loc} {v.where}" for v in vs][:4]
        res["status"] = "ok" if vs else "MISSED"
    except AnalysisError as e:
        res["reported"] = [f"ANALYSIS-ERROR {e}"]
        res["status"] = "ERROR"
    return res


def _benign(args) -> dict:
    pid, modname, name = args
    import importlib
    from sa.context import Context
    from sa.report import VERIF
    mod = importlib.import_module(modname)
    res = {"rule": "benign-corpus", "name": name, "expect": "silent"}
    diff = (VERIF / "benign" / name / "patch.diff").read_text()
    overlay = apply_unified_diff(diff, repo_root())
    if overlay is None:
        res["status"] = "not-applicable (patch does not apply to the current tree)"
        return res
    rep = Report(pid, "selftest")
    try:
        ctx = Context(tier="quick", overlay=overlay)
        from sa.report import run_rules
        run_rules(mod, ctx, rep, pid)
        if rep.unmet_floors() and not rep.violations:
            raise AnalysisError("; ".join(rep.unmet_floors()))
        known = {f["key"] for f in load_known().get("findings", [])}
        vs = [v for v in rep.violations if v.key(pid) not in known]
        res["reported"] = [f"{v.rule} {v.loc} {v.where}" for v in vs][:4]
        res["status"] = "ok" if not vs else "FALSE-ALARM"
    except AnalysisError as e:
        res["reported"] = [f"ANALYSIS-ERROR {e}"]
        res["status"] = "ERROR"
    return res


def _one(args) -> dict:
    pid, modname, idx = args
    import importlib
    from sa.context import Context
    mod = importlib.import_module(modname)
    st = mod.SELFTESTS[idx]
    root = repo_root()
    res = {"rule": st["rule"], "name": st["name"], "expect": st["expect"]}
    overlay = _apply(st, root)
    if overlay is None:
        res["status"] = "not-applicable (seed text not found in current tree)"
        return res
    rep = Report(pid, "selftest")
    try:
        ctx = Context(tier="quick", overlay=overlay)
        from sa.report import run_rules
        run_rules(mod, ctx, rep, pid)
        if rep.unmet_floors() and not rep.violations:
            raise AnalysisError("; ".join(rep.unmet_floors()))
        known = {f["key"] for f in load_known().get("findings", [])}
        vs = [v for v in rep.violations if v.key(pid) not in known]
        res["reported"] = [f"{v.rule} {v.loc} {v.where}: {v.construct}"
                           for v in vs][:6]
        hit = [v for v in vs if v.rule == st["rule"] or
               v.rule.startswith(st["rule"])]
        if st["expect"] == "fire":
            res["status"] = "ok" if hit else "MISSED"
        else:
            res["status"] = "ok" if not vs else "FALSE-ALARM"
    except AnalysisError as e:
        res["reported"] = [f"ANALYSIS-ERROR {e}"]
        # an analysis error on a seeded variant is fail-closed, but it is
        # not the precise report the seed asks for
        res["status"] = "ok-analysis-error" if st["expect"] == "fire" and \
            st.get("allow_error") else "ERROR"
    return res


def run_selftests(pid: str, mod, rep: Report) -> None:
    import json
    from sa.report import VERIF
    tests = getattr(mod, "SELFTESTS", [])
    jobs = [(pid, mod.__name__, i) for i in range(len(tests))]
    # independent seeded changes (made by sub-agents without access to
    # /verif) that this property's check is recorded to catch
    corpus = []
    rp = VERIF / "seeded" / "RESULTS.json"
    if rp.exists():
        for name, r in sorted(json.loads(rp.read_text()).items()):
            if pid in r.get("fired", {}) and (
                    VERIF / "seeded" / name / "patch.diff").exists():
                corpus.append((pid, mod.__name__, name))
    benign = []
    bdir = VERIF / "benign"
    if bdir.exists():
        benign = [(pid, mod.__name__, p.name) for p in sorted(bdir.iterdir())
                  if (p / "patch.diff").exists()]
    if not jobs and not corpus and not benign:
        return
    workers = max(1, min(len(jobs) + len(corpus) + len(benign),
                         int(os.environ.get("VERIF_JOBS", "16"))))
    with ProcessPoolExecutor(max_workers=workers) as ex:
        results = list(ex.map(_one, jobs)) + list(ex.map(_seeded, corpus)) + \
            list(ex.map(_benign, benign))
    rep.selftest = results
    bad = [r for r in results if r["status"] in ("MISSED", "FALSE-ALARM",
                                                  "ERROR")]
    ok = sum(1 for r in results if r["status"].startswith("ok"))
    na = sum(1 for r in results if r["status"].startswith("not-applicable"))
    print(f"[{pid}] self-validation: {ok} ok, {na} not applicable, "
          f"{len(bad)} failed of {len(results)} variants ({len(jobs)} seeded "
          f"by rule, {len(corpus)} independent changes, {len(benign)} "
          f"behaviour-preserving refactorings)")
    for r in bad:
        print(f"  SELFTEST-{r['status']} rule={r['rule']} variant={r['name']} "
              f"reported={r.get('reported')}")
    if bad:
        raise AnalysisError(
            f"checker self-validation failed for {len(bad)} variant(s): " +
            ", ".join(f"{r['rule']}/{r['name']}={r['status']}" for r in bad))
