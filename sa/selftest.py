"""Checker self-validation (thorough tier): seeded variants are analysed in
memory through the overlay. A rule that misses its seed, or fires on a
behaviour-preserving twin, makes the run ANALYSIS-ERROR: a broken checker is
not believed. Output never uses the `VIOLATION property=` format."""
from __future__ import annotations

import os
from concurrent.futures import ProcessPoolExecutor

from sa.model import AnalysisError, repo_root
from sa.report import Report, load_known


def _apply(st: dict, root) -> dict[str, str] | None:
    overlay: dict[str, str] = {}
    edits = st.get("edits") or [st]
    for e in edits:
        p = root / e["path"]
        text = overlay.get(e["path"])
        if text is None:
            text = p.read_text(encoding="utf-8")
        if text.count(e["old"]) != 1:
            return None
        overlay[e["path"]] = text.replace(e["old"], e["new"])
    return overlay


def _one(args) -> dict:
    pid, modname, idx = args
    import importlib
    from sa.context import Context
    mod = importlib.import_module(modname)
    st = mod.SELFTESTS[idx]
    root = repo_root()
    res = {"rule": st["rule"], "name": st["name"], "expect": st["expect"]}
    overlay = _apply(st, root)
    if overlay is None:
        res["status"] = "not-applicable (seed text not found in current tree)"
        return res
    rep = Report(pid, "selftest")
    try:
        ctx = Context(tier="quick", overlay=overlay)
        mod.run(ctx, rep)
        if rep.unmet_floors() and not rep.violations:
            raise AnalysisError("; ".join(rep.unmet_floors()))
        known = {f["key"] for f in load_known().get("findings", [])}
        vs = [v for v in rep.violations if v.key(pid) not in known]
        res["reported"] = [f"{v.rule} {v.loc} {v.where}: {v.construct}"
                           for v in vs][:6]
        hit = [v for v in vs if v.rule == st["rule"] or
               v.rule.startswith(st["rule"])]
        if st["expect"] == "fire":
            res["status"] = "ok" if hit else "MISSED"
        else:
            res["status"] = "ok" if not vs else "FALSE-ALARM"
    except AnalysisError as e:
        res["reported"] = [f"ANALYSIS-ERROR {e}"]
        # an analysis error on a seeded variant is fail-closed, but it is
        # not the precise report the seed asks for
        res["status"] = "ok-analysis-error" if st["expect"] == "fire" and \
            st.get("allow_error") else "ERROR"
    return res


def run_selftests(pid: str, mod, rep: Report) -> None:
    tests = getattr(mod, "SELFTESTS", [])
    if not tests:
        return
    jobs = [(pid, mod.__name__, i) for i in range(len(tests))]
    workers = min(len(jobs), int(os.environ.get("VERIF_JOBS", "16")))
    if workers > 1:
        with ProcessPoolExecutor(max_workers=workers) as ex:
            results = list(ex.map(_one, jobs))
    else:
        results = [_one(j) for j in jobs]
    rep.selftest = results
    bad = [r for r in results if r["status"] in ("MISSED", "FALSE-ALARM",
                                                  "ERROR")]
    ok = sum(1 for r in results if r["status"].startswith("ok"))
    na = sum(1 for r in results if r["status"].startswith("not-applicable"))
    print(f"[{pid}] self-validation: {ok} ok, {na} not applicable, "
          f"{len(bad)} failed of {len(results)} seeded variants")
    for r in bad:
        print(f"  SELFTEST-{r['status']} rule={r['rule']} variant={r['name']} "
              f"reported={r.get('reported')}")
    if bad:
        raise AnalysisError(
            f"checker self-validation failed for {len(bad)} variant(s): " +
            ", ".join(f"{r['rule']}/{r['name']}={r['status']}" for r in bad))
