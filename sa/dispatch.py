"""Normalisation of dispatch forms, so that the rules see one shape:

  * literal dispatch (match on string literals / if-elif chains comparing one
    subject with string literals) is NOT rewritten: rules read both shapes
    through `literal_dispatches` below.
  * a `match` whose cases are all bare class patterns (`case Cls():`,
    `case A() | B():`) or the wildcard becomes the isinstance if/elif chain.

Both rewrites are semantics preserving for the subjects accepted (names and
attribute chains: evaluating them repeatedly has no effect)."""
from __future__ import annotations

from sa.model import clone as _clone

import ast
import copy


def _pure_subject(e: ast.AST) -> bool:
    while isinstance(e, ast.Attribute):
        e = e.value
    return isinstance(e, ast.Name)


def _literal_test(test: ast.AST):
    """(subject, [literals]) for `s == "a"`, `"a" == s`, `s in ("a", "b")`."""
    if not (isinstance(test, ast.Compare) and len(test.ops) == 1):
        return None
    left, op, right = test.left, test.ops[0], test.comparators[0]
    if isinstance(op, ast.Eq):
        if isinstance(right, ast.Constant) and isinstance(right.value, str) \
                and _pure_subject(left):
            return left, [right.value]
        if isinstance(left, ast.Constant) and isinstance(left.value, str) \
                and _pure_subject(right):
            return right, [left.value]
    if isinstance(op, ast.In) and isinstance(right, (ast.Tuple, ast.List,
                                                      ast.Set)) and right.elts \
            and all(isinstance(x, ast.Constant) and isinstance(x.value, str)
                    for x in right.elts) and _pure_subject(left):
        return left, [x.value for x in right.elts]
    return None


class DispatchNormaliser(ast.NodeTransformer):

    def __init__(self):
        self.log: list[str] = []

    # if/elif over string literals -> match
    def _unused_if_to_match(self, node: ast.If):
        first = _literal_test(node.test)
        if first is not None:
            subject = ast.unparse(first[0])
            arms: list[tuple[list[str], list[ast.stmt]]] = []
            cur: ast.stmt | None = node
            default: list[ast.stmt] | None = None
            ok = True
            while True:
                t = _literal_test(cur.test)  # type: ignore[union-attr]
                if t is None or ast.unparse(t[0]) != subject:
                    ok = False
                    break
                arms.append((t[1], cur.body))  # type: ignore[union-attr]
                orelse = cur.orelse  # type: ignore[union-attr]
                if len(orelse) == 1 and isinstance(orelse[0], ast.If):
                    nxt = _literal_test(orelse[0].test)
                    if nxt is not None and ast.unparse(nxt[0]) == subject:
                        cur = orelse[0]
                        continue
                default = orelse or None
                break
            seen: list[str] = [x for lits, _ in arms for x in lits]
            if ok and len(arms) >= 2 and len(seen) == len(set(seen)):
                cases = []
                for lits, body in arms:
                    pats = [ast.MatchValue(value=ast.Constant(value=x))
                            for x in lits]
                    pat = pats[0] if len(pats) == 1 else ast.MatchOr(
                        patterns=pats)
                    cases.append(ast.match_case(pattern=pat, guard=None,
                                                body=body))
                if default is not None:
                    cases.append(ast.match_case(
                        pattern=ast.MatchAs(pattern=None, name=None),
                        guard=None, body=default))
                new = ast.Match(subject=_clone(first[0]), cases=cases)
                ast.copy_location(new, node)
                for c in cases:
                    for n in ast.walk(c.pattern):
                        ast.copy_location(n, node)
                self.log.append(f"if/elif on {subject} at L{node.lineno} "
                                "-> match")
                return self.generic_visit(new)
        return self.generic_visit(node)

    # match over bare class patterns -> isinstance chain
    def visit_Match(self, node: ast.Match):
        self.generic_visit(node)
        if not _pure_subject(node.subject):
            return node

        def classes(p: ast.AST):
            if isinstance(p, ast.MatchClass) and not p.patterns and \
                    not p.kwd_patterns:
                return [p.cls]
            if isinstance(p, ast.MatchOr):
                out = []
                for q in p.patterns:
                    c = classes(q)
                    if c is None:
                        return None
                    out += c
                return out
            return None

        arms = []
        default = None
        for i, case in enumerate(node.cases):
            if case.guard is not None:
                return node
            cl = classes(case.pattern)
            if cl is not None:
                arms.append((cl, case.body))
            elif isinstance(case.pattern, ast.MatchAs) and \
                    case.pattern.pattern is None and \
                    case.pattern.name is None and i == len(node.cases) - 1:
                default = case.body
            else:
                return node
        if not arms:
            return node
        chain: list[ast.stmt] = default or []
        for cl, body in reversed(arms):
            typ = cl[0] if len(cl) == 1 else ast.Tuple(elts=cl, ctx=ast.Load())
            test = ast.Call(func=ast.Name(id="isinstance", ctx=ast.Load()),
                            args=[_clone(node.subject), typ],
                            keywords=[])
            new = ast.If(test=test, body=body, orelse=chain)
            ast.copy_location(new, node)
            for n in ast.walk(test):
                ast.copy_location(n, node)
            chain = [new]
        self.log.append(f"match on classes at L{node.lineno} -> isinstance "
                        "chain")
        return chain[0]


def normalise_dispatch(tree: ast.Module) -> list[str]:
    t = DispatchNormaliser()
    t.visit(tree)
    p = PullLoopNormaliser()
    p.visit(tree)
    a = AliasInliner()
    a.visit(tree)
    f = FlattenLoopNormaliser()
    f.visit(tree)
    w = WithConstructorNormaliser(tree)
    w.visit(tree)
    wl = WorklistNormaliser()
    wl.visit(tree)
    bc = BranchCallableNormaliser()
    bc.visit(tree)
    fl = FilterLoopNormaliser(tree)
    fl.visit(tree)
    pf = PartialFactoryNormaliser()
    pf.visit(tree)
    ast.fix_missing_locations(tree)
    return t.log + p.log + a.log + f.log + w.log + wl.log + bc.log + fl.log \
        + pf.log


class PartialFactoryNormaliser(ast.NodeTransformer):
    """`functools.partial(F, a, k=v)` handed (directly, or through a local
    bound once and used once) to `...from_generator(..)`, which calls it
    without arguments, is `lambda: F(a, k=v)`."""

    def __init__(self):
        self.log: list[str] = []

    @staticmethod
    def _is_partial(e) -> bool:
        return isinstance(e, ast.Call) and ast.unparse(e.func) in (
            "functools.partial", "partial") and bool(e.args)

    @staticmethod
    def _lam(p: ast.Call) -> ast.Lambda:
        from sa.model import clone
        return ast.Lambda(
            args=ast.arguments(posonlyargs=[], args=[], kwonlyargs=[],
                               kw_defaults=[], defaults=[]),
            body=ast.Call(func=clone(p.args[0]),
                          args=[clone(a) for a in p.args[1:]],
                          keywords=[clone(k) for k in p.keywords]))

    def visit_FunctionDef(self, node):
        self.generic_visit(node)
        calls = [c for c in ast.walk(node) if isinstance(c, ast.Call) and
                 isinstance(c.func, ast.Attribute) and
                 c.func.attr == "from_generator"]
        for c in calls:
            slots = [("args", i) for i in range(len(c.args))] + [
                ("kw", i) for i in range(len(c.keywords))]
            for kind_, i in slots:
                a = c.args[i] if kind_ == "args" else c.keywords[i].value
                new = None
                if self._is_partial(a):
                    new = self._lam(a)
                elif isinstance(a, ast.Name):
                    stores = [s for s in ast.walk(node) if isinstance(
                        s, (ast.Assign, ast.AnnAssign)) and getattr(
                            s, "value", None) is not None and any(
                                isinstance(t, ast.Name) and t.id == a.id
                                for t in (s.targets if isinstance(
                                    s, ast.Assign) else [s.target]))]
                    loads = [x for x in ast.walk(node) if isinstance(
                        x, ast.Name) and x.id == a.id and isinstance(
                            x.ctx, ast.Load)]
                    if len(stores) == 1 and len(loads) == 1 and \
                            self._is_partial(stores[0].value):
                        new = self._lam(stores[0].value)
                        self._drop(node, stores[0])
                if new is not None:
                    ast.copy_location(new, a)
                    if kind_ == "args":
                        c.args[i] = new
                    else:
                        c.keywords[i].value = new
                    self.log.append(f"L{c.lineno}: functools.partial factory "
                                    "read as a lambda")
        ast.fix_missing_locations(node)
        return node

    visit_AsyncFunctionDef = visit_FunctionDef

    @staticmethod
    def _drop(root, stmt) -> None:
        for owner in ast.walk(root):
            for fld in ("body", "orelse", "finalbody"):
                blk = getattr(owner, fld, None)
                if isinstance(blk, list) and stmt in blk:
                    blk.remove(stmt)
                    if not blk:
                        blk.append(ast.Pass())
                    return


class FilterLoopNormaliser(ast.NodeTransformer):
    """`for x in itertools.filterfalse(P, S): BODY` is
    `for x in S: if P(x): continue; BODY` (and `filter(P, S)` with the test
    negated), where P is `operator.methodcaller("m")` (then P(x) is `x.m()`),
    a lambda, or a module-level name bound once to one of these."""

    def __init__(self, tree: ast.Module):
        self.log: list[str] = []
        self.globals: dict[str, ast.AST] = {}
        for s in tree.body:
            if isinstance(s, ast.Assign) and len(s.targets) == 1 and \
                    isinstance(s.targets[0], ast.Name):
                self.globals[s.targets[0].id] = s.value
            elif isinstance(s, ast.AnnAssign) and isinstance(
                    s.target, ast.Name) and s.value is not None:
                self.globals[s.target.id] = s.value

    def _apply(self, pred: ast.AST, var: str) -> ast.AST | None:
        from sa.model import clone
        if isinstance(pred, ast.Name) and pred.id in self.globals:
            pred = self.globals[pred.id]
        if isinstance(pred, ast.Call) and ast.unparse(pred.func) in (
                "operator.methodcaller", "methodcaller") and len(
                    pred.args) == 1 and isinstance(
                        pred.args[0], ast.Constant) and isinstance(
                            pred.args[0].value, str) and not pred.keywords:
            return ast.Call(func=ast.Attribute(
                value=ast.Name(id=var, ctx=ast.Load()),
                attr=pred.args[0].value, ctx=ast.Load()), args=[], keywords=[])
        if isinstance(pred, ast.Lambda) and len(pred.args.args) == 1 and \
                not pred.args.defaults:
            p0 = pred.args.args[0].arg

            class _S(ast.NodeTransformer):

                def visit_Name(self, n):
                    if n.id == p0:
                        return ast.copy_location(ast.Name(id=var, ctx=n.ctx), n)
                    return n

            return _S().visit(clone(pred.body))
        return None

    def visit_For(self, node: ast.For):
        self.generic_visit(node)
        it = node.iter
        if not (isinstance(it, ast.Call) and isinstance(
                node.target, ast.Name) and len(it.args) == 2 and
                not it.keywords):
            return node
        nm = ast.unparse(it.func)
        if nm not in ("itertools.filterfalse", "filterfalse", "filter"):
            return node
        test = self._apply(it.args[0], node.target.id)
        if test is None:
            return node
        skip_when = test if nm != "filter" else ast.UnaryOp(op=ast.Not(),
                                                            operand=test)
        guard = ast.If(test=skip_when, body=[ast.Continue()], orelse=[])
        ast.copy_location(guard, node)
        node.iter = it.args[1]
        node.body = [guard] + node.body
        ast.fix_missing_locations(node)
        self.log.append(f"L{node.lineno}: loop over {nm}(..) read as a loop "
                        "with a guard")
        return node


class BranchCallableNormaliser(ast.NodeTransformer):
    """`if c: f = A  else: f = B` directly followed by the only use
    `... f(ARGS) ...` is the call written in each branch (`A(ARGS)` /
    `B(ARGS)`); `functools.partial(g, k=v)(ARGS)` is `g(ARGS, k=v)`."""

    def __init__(self):
        self.log: list[str] = []

    @staticmethod
    def _fn_value(v) -> bool:
        if isinstance(v, (ast.Name, ast.Attribute)):
            return True
        return isinstance(v, ast.Call) and ast.unparse(v.func) in (
            "functools.partial", "partial") and bool(v.args) and isinstance(
                v.args[0], (ast.Name, ast.Attribute)) and not any(
                    k.arg is None for k in v.keywords)

    def _branches(self, node: ast.If, name: str):
        """[(block, index of the assignment)] for every branch, or None."""
        out = []
        for blk in (node.body, node.orelse):
            if not blk:
                return None
            if len(blk) == 1 and isinstance(blk[0], ast.If) and blk is \
                    node.orelse:
                sub = self._branches(blk[0], name)
                if sub is None:
                    return None
                out += sub
                continue
            last = blk[-1]
            if isinstance(last, ast.Raise):
                continue
            tgt = last.targets[0] if isinstance(last, ast.Assign) and len(
                last.targets) == 1 else getattr(last, "target", None)
            if not (isinstance(tgt, ast.Name) and tgt.id == name and
                    getattr(last, "value", None) is not None and
                    self._fn_value(last.value)):
                return None
            out.append((blk, len(blk) - 1))
        return out or None

    def _block(self, stmts, scope):
        from sa.model import clone
        out = list(stmts)
        i = 0
        while i + 1 < len(out):
            s, use = out[i], out[i + 1]
            if isinstance(s, ast.If) and isinstance(
                    use, (ast.Assign, ast.AnnAssign, ast.Expr, ast.Return)):
                calls = [x for x in ast.walk(use) if isinstance(x, ast.Call)
                         and isinstance(x.func, ast.Name)]
                for cl in calls:
                    name = cl.func.id
                    br = self._branches(s, name)
                    if br is None:
                        continue
                    occ = [x for x in ast.walk(scope) if isinstance(
                        x, ast.Name) and x.id == name]
                    n_assign = len(br)
                    # uses: the branch assignments + this one call (+ a bare
                    # annotation)
                    loads = [x for x in occ if isinstance(x.ctx, ast.Load)]
                    if len(loads) != 1 or loads[0] is not cl.func:
                        continue
                    stores = [x for x in occ if isinstance(x.ctx, ast.Store)]
                    if len(stores) - n_assign not in (0, 1):
                        continue
                    for blk, idx in br:
                        val = blk[idx].value
                        new_use = clone(use)
                        tgt_call = next(
                            x for x in ast.walk(new_use) if isinstance(
                                x, ast.Call) and isinstance(
                                    x.func, ast.Name) and x.func.id == name)
                        if isinstance(val, ast.Call):      # partial(g, ..)
                            tgt_call.func = clone(val.args[0])
                            tgt_call.args = [clone(a) for a in val.args[1:]] \
                                + tgt_call.args
                            tgt_call.keywords = tgt_call.keywords + [
                                clone(k) for k in val.keywords]
                        else:
                            tgt_call.func = clone(val)
                        ast.copy_location(new_use, blk[idx])
                        blk[idx] = new_use
                    del out[i + 1]
                    self.log.append(f"L{s.lineno}: callable `{name}` chosen "
                                    "in branches read as the call in each "
                                    "branch")
                    break
            i += 1
        return out

    def visit_FunctionDef(self, node):
        self.generic_visit(node)
        self._scope = node

        def rec(owner):
            for fld in ("body", "orelse", "finalbody"):
                blk = getattr(owner, fld, None)
                if isinstance(blk, list) and blk and isinstance(
                        blk[0], ast.stmt):
                    for s in blk:
                        if not isinstance(s, (ast.FunctionDef,
                                              ast.AsyncFunctionDef,
                                              ast.ClassDef)):
                            rec(s)
                    setattr(owner, fld, self._block(blk, node))
            if isinstance(owner, ast.Try):
                for h in owner.handlers:
                    rec(h)
            if isinstance(owner, ast.Match):
                for cs in owner.cases:
                    rec(cs)

        rec(node)
        return node

    visit_AsyncFunctionDef = visit_FunctionDef


class WorklistNormaliser(ast.NodeTransformer):
    """The explicit-stack pre-order walk

        W = [a]                      # a: the function's (last) parameter
        while W:
            cur = W.pop()
            BODY(cur)                # does not mention W
            W.extend(reversed(E))

    of a generator F is the recursion  BODY(a); for c in E: yield from F(c)
    (same order: the first child is on top of the stack). Only this exact
    shape: pop() from the end, extend(reversed(..)) as the last statement."""

    def __init__(self):
        self.log: list[str] = []

    def visit_FunctionDef(self, node: ast.FunctionDef):
        self.generic_visit(node)
        from sa.model import clone
        body = [s for s in node.body if not (isinstance(s, ast.Expr) and
                                             isinstance(s.value, ast.Constant))]
        if len(body) != 2:
            return node
        s1, s2 = body
        t1 = s1.targets[0] if isinstance(s1, ast.Assign) and len(
            s1.targets) == 1 else getattr(s1, "target", None)
        v1 = getattr(s1, "value", None)
        params = [a.arg for a in node.args.args]
        if not (isinstance(t1, ast.Name) and isinstance(v1, ast.List) and len(
                v1.elts) == 1 and isinstance(v1.elts[0], ast.Name) and
                v1.elts[0].id in params and isinstance(s2, ast.While) and
                isinstance(s2.test, ast.Name) and s2.test.id == t1.id and
                not s2.orelse and len(s2.body) >= 2):
            return node
        w, a = t1.id, v1.elts[0].id
        first, last = s2.body[0], s2.body[-1]
        tf = first.targets[0] if isinstance(first, ast.Assign) and len(
            first.targets) == 1 else getattr(first, "target", None)
        vf = getattr(first, "value", None)
        if not (isinstance(tf, ast.Name) and isinstance(vf, ast.Call) and
                isinstance(vf.func, ast.Attribute) and vf.func.attr == "pop" and
                not vf.args and isinstance(vf.func.value, ast.Name) and
                vf.func.value.id == w):
            return node
        cur = tf.id
        ok_last = isinstance(last, ast.Expr) and isinstance(
            last.value, ast.Call) and isinstance(
                last.value.func, ast.Attribute) and \
            last.value.func.attr == "extend" and isinstance(
                last.value.func.value, ast.Name) and \
            last.value.func.value.id == w and len(last.value.args) == 1 and \
            isinstance(last.value.args[0], ast.Call) and isinstance(
                last.value.args[0].func, ast.Name) and \
            last.value.args[0].func.id == "reversed" and len(
                last.value.args[0].args) == 1
        middle = s2.body[1:-1]
        if not ok_last or any(isinstance(x, ast.Name) and x.id == w
                              for s in middle for x in ast.walk(s)) or any(
                isinstance(x, (ast.Break, ast.Continue, ast.Return))
                for s in middle for x in ast.walk(s)):
            return node
        children = last.value.args[0].args[0]

        class _R(ast.NodeTransformer):

            def visit_Name(self, n):
                if n.id == cur:
                    return ast.copy_location(ast.Name(id=a, ctx=n.ctx), n)
                return n

        new_body = [_R().visit(clone(s)) for s in middle]
        is_method = params[:1] == ["self"]
        callee = ast.Attribute(value=ast.Name(id="self", ctx=ast.Load()),
                               attr=node.name, ctx=ast.Load()) if is_method \
            else ast.Name(id=node.name, ctx=ast.Load())
        child = f"{cur}__child"
        loop = ast.For(
            target=ast.Name(id=child, ctx=ast.Store()),
            iter=_R().visit(clone(children)),
            body=[ast.Expr(value=ast.YieldFrom(value=ast.Call(
                func=callee, args=[ast.Name(id=child, ctx=ast.Load())],
                keywords=[])))],
            orelse=[])
        doc = [s for s in node.body if isinstance(s, ast.Expr) and isinstance(
            s.value, ast.Constant)][:1]
        node.body = doc + new_body + [loop]
        for s in node.body:
            ast.copy_location(s, s2) if not hasattr(s, "lineno") else None
        ast.fix_missing_locations(node)
        self.log.append(f"{node.name}: explicit-stack pre-order walk read as "
                        "the recursion")
        return node


class WithConstructorNormaliser(ast.NodeTransformer):
    """`x = C(...)` immediately followed by `with x:` where C is a class of
    this module whose __enter__ returns self is `with C(...) as x:` - the
    spelling the resource rules are written for."""

    def __init__(self, tree: ast.Module):
        self.log: list[str] = []
        self.self_enter: set[str] = set()
        for n in ast.walk(tree):
            if isinstance(n, ast.ClassDef):
                for m in n.body:
                    if isinstance(m, ast.FunctionDef) and m.name == "__enter__":
                        body = [s for s in m.body if not (isinstance(
                            s, ast.Expr) and isinstance(s.value, ast.Constant))]
                        if len(body) == 1 and isinstance(
                                body[0], ast.Return) and isinstance(
                                    body[0].value, ast.Name) and \
                                body[0].value.id == "self":
                            self.self_enter.add(n.name)

    def _block(self, stmts: list[ast.stmt]) -> list[ast.stmt]:
        out: list[ast.stmt] = []
        i = 0
        while i < len(stmts):
            s = stmts[i]
            nxt = stmts[i + 1] if i + 1 < len(stmts) else None
            tgt = None
            if isinstance(s, ast.Assign) and len(s.targets) == 1:
                tgt = s.targets[0]
            elif isinstance(s, ast.AnnAssign) and s.value is not None:
                tgt = s.target
            if tgt is not None and isinstance(tgt, ast.Name) and isinstance(
                    s.value, ast.Call) and isinstance(
                        s.value.func, ast.Name) and \
                    s.value.func.id in self.self_enter and isinstance(
                        nxt, ast.With) and len(nxt.items) == 1 and isinstance(
                            nxt.items[0].context_expr, ast.Name) and \
                    nxt.items[0].context_expr.id == tgt.id and \
                    nxt.items[0].optional_vars is None:
                nxt.items[0] = ast.withitem(
                    context_expr=s.value,
                    optional_vars=ast.Name(id=tgt.id, ctx=ast.Store()))
                self.log.append(f"L{s.lineno}: `{tgt.id} = {s.value.func.id}"
                                f"(..); with {tgt.id}:` read as `with .. as`")
                out.append(nxt)
                i += 2
                continue
            out.append(s)
            i += 1
        return out

    def generic_visit(self, node):
        super().generic_visit(node)
        for fld in ("body", "orelse", "finalbody"):
            blk = getattr(node, fld, None)
            if isinstance(blk, list) and blk and isinstance(blk[0], ast.stmt):
                setattr(node, fld, self._block(blk))
        return node


class FlattenLoopNormaliser(ast.NodeTransformer):
    """`for X in E: yield from X` (nothing else in the loop, no else) is
    `yield from itertools.chain.from_iterable(E)`: the spelling the rules
    about ordered flattening are written for."""

    def __init__(self):
        self.log: list[str] = []

    def visit_For(self, node: ast.For):
        self.generic_visit(node)
        if len(node.body) == 1 and not node.orelse and isinstance(
                node.target, ast.Name) and isinstance(
                    node.body[0], ast.Expr) and isinstance(
                        node.body[0].value, ast.YieldFrom) and isinstance(
                            node.body[0].value.value, ast.Name) and \
                node.body[0].value.value.id == node.target.id and isinstance(
                    node.iter, ast.Call):
            self.log.append(f"L{node.lineno}: for/yield-from loop read as "
                            "chain.from_iterable")
            new = ast.Expr(value=ast.YieldFrom(value=ast.Call(
                func=ast.Attribute(value=ast.Attribute(
                    value=ast.Name(id="itertools", ctx=ast.Load()),
                    attr="chain", ctx=ast.Load()),
                    attr="from_iterable", ctx=ast.Load()),
                args=[node.iter], keywords=[])))
            return ast.copy_location(new, node)
        return node


    def visit_Expr(self, node: ast.Expr):
        # `yield from chain.from_iterable(map(F, E))` (lazy, one F(x) at a
        # time, in order) is `for x in E: yield from F(x)`
        self.generic_visit(node)
        v = node.value
        if isinstance(v, ast.YieldFrom) and isinstance(v.value, ast.Call):
            c = v.value
            fn = ast.unparse(c.func)
            if fn in ("itertools.chain.from_iterable", "chain.from_iterable") \
                    and len(c.args) == 1 and not c.keywords and isinstance(
                        c.args[0], ast.Call) and isinstance(
                            c.args[0].func, ast.Name) and \
                    c.args[0].func.id == "map" and len(c.args[0].args) == 2 \
                    and not c.args[0].keywords and isinstance(
                        c.args[0].args[0], (ast.Name, ast.Attribute)):
                f_, e_ = c.args[0].args
                self.log.append(f"L{node.lineno}: yield from chain."
                                "from_iterable(map(F, E)) read as a loop")
                x = ast.Name(id="_chained", ctx=ast.Load())
                loop = ast.For(
                    target=ast.Name(id="_chained", ctx=ast.Store()), iter=e_,
                    body=[ast.Expr(value=ast.YieldFrom(value=ast.Call(
                        func=f_, args=[x], keywords=[])))],
                    orelse=[], type_comment=None)
                ast.copy_location(loop, node)
                ast.fix_missing_locations(loop)
                return loop
        return node


class Dispatch:
    """One literal dispatch: `match s: case "a": ...` or the equivalent
    if/elif chain. arms: list of (literals, body); default: body or None."""

    def __init__(self, node, subject, arms, default):
        self.node = node
        self.subject = subject
        self.arms = arms
        self.default = default


def _match_literals(p: ast.AST):
    if isinstance(p, ast.MatchValue) and isinstance(p.value, ast.Constant):
        return [p.value.value]
    if isinstance(p, ast.MatchSingleton):
        return [p.value]
    if isinstance(p, ast.MatchOr):
        out = []
        for q in p.patterns:
            r = _match_literals(q)
            if r is None:
                return None
            out += r
        return out
    return None


def literal_dispatches(nodes) -> list[Dispatch]:
    """All literal dispatches among `nodes` (an iterable of AST nodes, e.g.
    fn.body_nodes()). An if/elif chain counts when it has two literal arms or
    more on the same pure subject; the chain's head only (not its elifs)."""
    out: list[Dispatch] = []
    nodes = list(nodes)
    elifs = set()
    for n in nodes:
        if isinstance(n, ast.If) and len(n.orelse) == 1 and isinstance(
                n.orelse[0], ast.If):
            elifs.add(id(n.orelse[0]))
    for n in nodes:
        if isinstance(n, ast.Match):
            arms = []
            default = None
            ok = True
            for case in n.cases:
                lits = _match_literals(case.pattern)
                if lits is not None and case.guard is None:
                    arms.append((lits, case.body))
                elif isinstance(case.pattern, ast.MatchAs) and \
                        case.pattern.pattern is None and case.guard is None:
                    default = case.body
                else:
                    ok = False
            if ok and arms:
                out.append(Dispatch(n, n.subject, arms, default))
        elif isinstance(n, ast.If) and id(n) not in elifs:
            first = _literal_test(n.test)
            if first is None:
                continue
            subject = ast.unparse(first[0])
            arms = []
            cur = n
            default = None
            while True:
                t = _literal_test(cur.test)
                if t is None or ast.unparse(t[0]) != subject:
                    arms = []
                    break
                arms.append((t[1], cur.body))
                if len(cur.orelse) == 1 and isinstance(cur.orelse[0], ast.If) \
                        and _literal_test(cur.orelse[0].test) is not None:
                    cur = cur.orelse[0]
                    continue
                default = cur.orelse or None
                break
            if len(arms) >= 2:
                out.append(Dispatch(n, first[0], arms, default))
    return out


def _general_test(test: ast.AST):
    """(subject, [("lit", v) | ("in", expr)]) for one if-test."""
    lt = _literal_test(test)
    if lt is not None:
        return lt[0], [("lit", v) for v in lt[1]]
    if isinstance(test, ast.Compare) and len(test.ops) == 1 and isinstance(
            test.ops[0], ast.In) and _pure_subject(test.left) and isinstance(
                test.comparators[0], (ast.Name, ast.Attribute)):
        return test.left, [("in", test.comparators[0])]
    return None


def general_dispatches(nodes) -> list[Dispatch]:
    """Like literal_dispatches, but an arm may also be selected by membership
    in a named table: `elif s in TABLE:` / `case x if x in TABLE:`. Arms are
    (tests, body) with tests a list of ("lit", value) | ("in", expr)."""
    out: list[Dispatch] = []
    nodes = list(nodes)
    elifs = set()
    for n in nodes:
        if isinstance(n, ast.If) and len(n.orelse) == 1 and isinstance(
                n.orelse[0], ast.If):
            elifs.add(id(n.orelse[0]))
    for n in nodes:
        if isinstance(n, ast.Match):
            arms = []
            default = None
            ok = True
            for case in n.cases:
                lits = _match_literals(case.pattern)
                p = case.pattern
                if lits is not None and case.guard is None:
                    arms.append(([("lit", v) for v in lits], case.body))
                elif isinstance(p, ast.MatchAs) and p.pattern is None and \
                        case.guard is None:
                    default = case.body
                elif isinstance(p, ast.MatchAs) and p.pattern is None and \
                        p.name is not None and isinstance(
                            case.guard, ast.Compare) and len(
                                case.guard.ops) == 1 and isinstance(
                                    case.guard.ops[0], ast.In) and isinstance(
                                        case.guard.left, ast.Name) and \
                        case.guard.left.id == p.name:
                    r = case.guard.comparators[0]
                    if isinstance(r, (ast.Tuple, ast.List, ast.Set)) and all(
                            isinstance(x, ast.Constant) for x in r.elts):
                        arms.append(([("lit", x.value) for x in r.elts],
                                     case.body))
                    else:
                        arms.append(([("in", r)], case.body))
                else:
                    ok = False
            if ok and arms:
                out.append(Dispatch(n, n.subject, arms, default))
        elif isinstance(n, ast.If) and id(n) not in elifs:
            first = _general_test(n.test)
            if first is None:
                continue
            subject = ast.unparse(first[0])
            arms = []
            cur = n
            default = None
            while True:
                t = _general_test(cur.test)
                if t is None or ast.unparse(t[0]) != subject:
                    arms = []
                    break
                arms.append((t[1], cur.body))
                if len(cur.orelse) == 1 and isinstance(cur.orelse[0], ast.If) \
                        and _general_test(cur.orelse[0].test) is not None:
                    cur = cur.orelse[0]
                    continue
                default = cur.orelse or None
                break
            if len(arms) >= 2:
                out.append(Dispatch(n, first[0], arms, default))
    return out


def _ends_control(body) -> bool:
    if not body:
        return False
    last = body[-1]
    if isinstance(last, (ast.Return, ast.Raise, ast.Continue, ast.Break)):
        return True
    if isinstance(last, ast.If):
        return _ends_control(last.body) and _ends_control(last.orelse)
    return False


def _containing_list(n: ast.AST):
    from sa.model import parent
    p = parent(n)
    if p is None:
        return None
    for fld in ("body", "orelse", "finalbody"):
        lst = getattr(p, fld, None)
        if isinstance(lst, list) and any(x is n for x in lst):
            return lst
    if isinstance(p, ast.Try):
        for h in p.handlers:
            if any(x is n for x in h.body):
                return h.body
    return None


def guard_chains(nodes, test_fn) -> list[Dispatch]:
    """`if s == "a": return X` / `if s == "b": return Y` / ... / <rest>:
    consecutive guard clauses on one subject, each leaving the block; the
    statements after the run are the default arm."""
    out: list[Dispatch] = []
    seen: set[int] = set()
    for n in nodes:
        if not isinstance(n, ast.If) or id(n) in seen or n.orelse:
            continue
        t = test_fn(n.test)
        if t is None or not _ends_control(n.body):
            continue
        lst = _containing_list(n)
        if lst is None:
            continue
        i = next(k for k, x in enumerate(lst) if x is n)
        if i > 0 and isinstance(lst[i - 1], ast.If) and id(lst[i - 1]) in seen:
            continue
        subject = ast.unparse(t[0])
        arms = []
        j = i
        while j < len(lst) and isinstance(lst[j], ast.If) and \
                not lst[j].orelse and _ends_control(lst[j].body):
            tj = test_fn(lst[j].test)
            if tj is None or ast.unparse(tj[0]) != subject:
                break
            arms.append((tj[1], lst[j].body))
            seen.add(id(lst[j]))
            j += 1
        if len(arms) >= 2:
            out.append(Dispatch(n, t[0], arms, lst[j:] or None))
    return out


_literal_dispatches_core = literal_dispatches
_general_dispatches_core = general_dispatches


def literal_dispatches(nodes) -> list[Dispatch]:  # noqa: F811
    nodes = list(nodes)
    return _literal_dispatches_core(nodes) + guard_chains(nodes, _literal_test)


def general_dispatches(nodes) -> list[Dispatch]:  # noqa: F811
    nodes = list(nodes)
    return _general_dispatches_core(nodes) + guard_chains(nodes, _general_test)


class PullLoopNormaliser(ast.NodeTransformer):
    """`for T in it: BODY` over a variable bound by `it = iter(..)` /
    `aiter(..)` is the explicit pull loop
        while True:
            try: T = next(it)
            except StopIteration: break
            BODY
    (and the async twin). The rules are written about explicit pulls."""

    def __init__(self):
        self.log: list[str] = []
        self.iter_vars: list[set[str]] = []

    def _visit_fn(self, node):
        bound = set()
        for n in ast.walk(node):
            if isinstance(n, (ast.Assign, ast.AnnAssign)) and isinstance(
                    n.value, ast.Call) and isinstance(n.value.func, ast.Name) \
                    and n.value.func.id in ("iter", "aiter"):
                t = n.targets[0] if isinstance(n, ast.Assign) else n.target
                if isinstance(t, ast.Name):
                    bound.add(t.id)
        self.iter_vars.append(bound)
        self.generic_visit(node)
        self.iter_vars.pop()
        return node

    visit_FunctionDef = _visit_fn
    visit_AsyncFunctionDef = _visit_fn

    def _loop(self, node, is_async: bool):
        self.generic_visit(node)
        if not self.iter_vars or node.orelse or not isinstance(
                node.iter, ast.Name) or node.iter.id not in self.iter_vars[-1] \
                or not isinstance(node.target, ast.Name):
            return node
        call = ast.Call(func=ast.Name(id="anext" if is_async else "next",
                                      ctx=ast.Load()),
                        args=[ast.Name(id=node.iter.id, ctx=ast.Load())],
                        keywords=[])
        value = ast.Await(value=call) if is_async else call
        pull = ast.Assign(targets=[ast.Name(id=node.target.id,
                                            ctx=ast.Store())], value=value)
        handler = ast.ExceptHandler(
            type=ast.Name(id="StopAsyncIteration" if is_async else
                          "StopIteration", ctx=ast.Load()),
            name=None, body=[ast.Break()])
        tr = ast.Try(body=[pull], handlers=[handler], orelse=[], finalbody=[])
        new = ast.While(test=ast.Constant(value=True), body=[tr] + node.body,
                        orelse=[])
        for n in ast.walk(new):
            ast.copy_location(n, node)
        self.log.append(f"for over iterator `{node.iter.id}` at "
                        f"L{node.lineno} -> explicit pull loop")
        return new

    def visit_For(self, node):
        return self._loop(node, False)

    def visit_AsyncFor(self, node):
        return self._loop(node, True)


class AliasInliner(ast.NodeTransformer):
    """`x = self.a.b` (one definition, pure attribute chain, never rebound)
    makes `x` another spelling of `self.a.b`: uses of `x` that come before
    any re-assignment of that attribute are replaced by the chain, so rules
    see the attribute whether or not somebody hoisted it into a local."""

    def __init__(self):
        self.log: list[str] = []

    def _fn(self, node):
        self.generic_visit(node)
        from sa.model import clone
        stores: dict[str, list[ast.AST]] = {}
        for n in ast.walk(node):
            if isinstance(n, ast.Name) and isinstance(n.ctx, (ast.Store,
                                                               ast.Del)):
                stores.setdefault(n.id, []).append(n)
            elif isinstance(n, ast.arg):
                stores.setdefault(n.arg, []).append(n)
        nested = [n for n in ast.walk(node) if n is not node and isinstance(
            n, (ast.FunctionDef, ast.AsyncFunctionDef, ast.Lambda))]
        nested_names = {x.id for f in nested for x in ast.walk(f)
                        if isinstance(x, ast.Name)}
        aliases = {}
        for st in ast.walk(node):
            if not isinstance(st, (ast.Assign, ast.AnnAssign)) or \
                    st.value is None:
                continue
            t = st.targets[0] if isinstance(st, ast.Assign) else st.target
            if isinstance(st, ast.Assign) and len(st.targets) != 1:
                continue
            v = st.value
            root = v
            depth = 0
            while isinstance(root, ast.Attribute):
                root = root.value
                depth += 1
            if not (isinstance(t, ast.Name) and depth >= 1 and isinstance(
                    root, ast.Name)):
                continue
            if root.id not in ("self", "cls"):
                # a chain on a local / parameter: the local must be final
                # where the alias is made (all its stores come earlier, the
                # alias is not made inside a loop)
                in_loop = any(isinstance(lp, (ast.For, ast.While, ast.AsyncFor))
                              and any(x is st for x in ast.walk(lp))
                              for lp in ast.walk(node))
                later = [x for x in stores.get(root.id, [])
                         if getattr(x, "lineno", 0) >= st.lineno]
                mutated = any(
                    isinstance(x, ast.Attribute) and isinstance(
                        x.ctx, (ast.Store, ast.Del)) and ast.unparse(
                            x).startswith(root.id + ".")
                    for x in ast.walk(node))
                # only the plain one-step form (`f = obj.method`): deeper
                # chains on locals are what the rules' own normal forms name
                if in_loop or later or root.id == t.id or depth != 1 or mutated:
                    continue
                # ... and only a *callable* alias (`f = obj.method`): every
                # use calls it or hands it to a mapping call as the function
                uses_ = [x for x in ast.walk(node) if isinstance(x, ast.Name)
                         and x.id == t.id and isinstance(x.ctx, ast.Load)]
                parents_ = {}
                for p_ in ast.walk(node):
                    for ch in ast.iter_child_nodes(p_):
                        parents_[id(ch)] = p_

                def callable_use(u):
                    p_ = parents_.get(id(u))
                    if isinstance(p_, ast.Call) and p_.func is u:
                        return True
                    return isinstance(p_, ast.Call) and p_.args and \
                        p_.args[0] is u and isinstance(
                            p_.func, (ast.Attribute, ast.Name)) and (
                                p_.func.attr if isinstance(
                                    p_.func, ast.Attribute) else p_.func.id
                            ) in ("map", "imap", "imap_unordered", "submit",
                                  "starmap", "filter")
                if not uses_ or not all(callable_use(u) for u in uses_):
                    continue
            if len(stores.get(t.id, [])) != 1 or t.id in nested_names:
                continue
            # the attribute must not be re-assigned before the last use
            chain = ast.unparse(v)
            rebinds = [x.lineno for x in ast.walk(node) if isinstance(
                x, (ast.Assign, ast.AugAssign, ast.AnnAssign, ast.Delete)) and
                any(ast.unparse(tg) == chain for tg in (
                    x.targets if isinstance(x, (ast.Assign, ast.Delete))
                    else [x.target])) and x is not st]
            uses = [x for x in ast.walk(node) if isinstance(x, ast.Name) and
                    x.id == t.id and isinstance(x.ctx, ast.Load)]
            # rebinds that can run between the alias and a use: textually
            # after the alias, or anywhere inside a loop that contains it
            loops_ = [lp for lp in ast.walk(node) if isinstance(
                lp, (ast.For, ast.While, ast.AsyncFor)) and any(
                    x is st for x in ast.walk(lp))]
            in_loop_lines = {x.lineno for lp in loops_ for x in ast.walk(lp)
                             if hasattr(x, "lineno")}
            # (source order by a pre-order numbering: inlined statements
            # share line numbers)
            order = {}

            def _number(nd, counter=[0]):
                order[id(nd)] = counter[0]
                counter[0] += 1
                for ch in ast.iter_child_nodes(nd):
                    _number(ch)

            _number(node, [0])
            rebind_nodes = [x for x in ast.walk(node) if isinstance(
                x, (ast.Assign, ast.AugAssign, ast.AnnAssign, ast.Delete)) and
                any(ast.unparse(tg) == chain for tg in (
                    x.targets if isinstance(x, (ast.Assign, ast.Delete))
                    else [x.target])) and x is not st]
            in_loop_ids = {id(x) for lp in loops_ for x in ast.walk(lp)}
            live = [x for x in rebind_nodes
                    if order[id(x)] > order[id(st)] or id(x) in in_loop_ids]
            if live and uses and max(order[id(u)] for u in uses) >= min(
                    order[id(x)] for x in live):
                continue
            if live and loops_:
                continue
            aliases[t.id] = (v, st)
        if not aliases:
            return node

        class R(ast.NodeTransformer):

            def visit_Name(self, n):
                if isinstance(n.ctx, ast.Load) and n.id in aliases:
                    return ast.copy_location(clone(aliases[n.id][0]), n)
                return n

        drop = {id(st) for _v, st in aliases.values()}

        def strip(stmts):
            out = []
            for x in stmts:
                if id(x) in drop:
                    continue
                for fld in ("body", "orelse", "finalbody"):
                    sub = getattr(x, fld, None)
                    if isinstance(sub, list) and sub and isinstance(
                            sub[0], ast.stmt):
                        setattr(x, fld, strip(sub) or [ast.Pass()])
                if isinstance(x, ast.Try):
                    for h in x.handlers:
                        h.body = strip(h.body) or [ast.Pass()]
                if isinstance(x, ast.Match):
                    for c in x.cases:
                        c.body = strip(c.body) or [ast.Pass()]
                out.append(x)
            return out

        node.body = strip(node.body) or [ast.Pass()]
        node = R().visit(node)
        self.log.append(f"{node.name}: attribute aliases "
                        f"{sorted(aliases)} read as their chains")
        return node

    visit_FunctionDef = _fn
    visit_AsyncFunctionDef = _fn
