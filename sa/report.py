"""Protocol plumbing: obligations, violations, known findings, evidence."""
from __future__ import annotations

import json
import os
import time
from dataclasses import dataclass, field
from pathlib import Path

VERIF = Path(__file__).resolve().parent.parent
EVIDENCE_DIR = Path(os.environ.get("VERIF_EVIDENCE_DIR", VERIF / "evidence"))
KNOWN_FINDINGS = VERIF / "known_findings.json"


@dataclass
class Violation:
    rule: str
    loc: str  # file:line
    where: str  # qualified construct (function / class)
    construct: str  # normalised offending construct (no line numbers)
    message: str
    path: str = ""  # CFG / call-graph witness, when a path rule

    def key(self, pid: str) -> str:
        file = self.loc.rsplit(":", 1)[0]
        return f"{pid}:{self.rule}:{file}::{self.where}:{self.construct}"


@dataclass
class Report:
    pid: str
    tier: str
    explanation: dict[str, str] = field(default_factory=dict)  # rule -> text
    obligations: int = 0
    discharged: int = 0
    instances: list[dict] = field(default_factory=list)
    violations: list[Violation] = field(default_factory=list)
    notes: list[str] = field(default_factory=list)
    samples: list[dict] = field(default_factory=list)
    assumptions: list[str] = field(default_factory=list)
    analysed: dict = field(default_factory=dict)
    not_decided: str = ""
    selftest: list[dict] = field(default_factory=list)
    floors: list[tuple] = field(default_factory=list)
    t0: float = field(default_factory=time.time)

    def rule(self, rule: str, text: str) -> None:
        self.explanation[rule] = " ".join(text.split())

    def ob(self, rule: str, ok: bool, *, loc: str, where: str, construct: str,
           message: str, path: str = "", sample: bool = True) -> bool:
        """One obligation at one construct. Returns ok."""
        self.obligations += 1
        status = "discharged" if ok else "VIOLATED"
        self.instances.append({
            "rule": rule,
            "loc": loc,
            "where": where,
            "construct": construct,
            "status": status
        })
        if ok:
            self.discharged += 1
            if sample and sum(1 for s in self.samples
                              if s.get("rule") == rule) < 3:
                self.samples.append({
                    "rule": rule,
                    "checked_on": f"{loc} {where}",
                    "construct": construct,
                    "obligation": message,
                    "status": "discharged"
                })
        else:
            self.violations.append(
                Violation(rule, loc, where, construct, message, path))
        return ok

    def floor(self, rule: str, n: int, minimum: int, what: str) -> None:
        """Instance-count floor (a rule that matches nothing passes
        vacuously). Evaluated after all rules ran; an unmet floor is an
        ANALYSIS-ERROR unless violations were already found."""
        self.floors.append((rule, n, minimum, what))

    def unmet_floors(self) -> list[str]:
        return [f"{r}: {n} {w}, floor {m}" for r, n, m, w in self.floors
                if n < m]

    def info(self, rule: str, text: str) -> None:
        self.notes.append(f"{rule}: {text}")

    def count(self, rule: str) -> int:
        return sum(1 for i in self.instances if i["rule"] == rule)


def load_known() -> dict:
    if not KNOWN_FINDINGS.exists():
        return {"findings": [], "fixed": []}
    return json.loads(KNOWN_FINDINGS.read_text())


def finish(rep: Report, seed: int, replay_filter: str | None = None) -> int:
    """Print the verdict, write evidence, return the exit code."""
    known = {
        f["key"]: f
        for f in load_known().get("findings", [])
        if f.get("property") == rep.pid
    }
    unlisted: list[Violation] = []
    listed: list[tuple[Violation, dict]] = []
    for v in rep.violations:
        k = v.key(rep.pid)
        if k in known:
            listed.append((v, known[k]))
        else:
            unlisted.append(v)
    replay_dir = EVIDENCE_DIR / "replay" / rep.pid
    lines: list[str] = []
    for v, f in listed:
        print(f"KNOWN-FINDING: property={rep.pid} {f.get('what', v.message)} "
              f"[{v.rule} at {v.loc} {v.where}]")
    if unlisted:
        replay_dir.mkdir(parents=True, exist_ok=True)
    for i, v in enumerate(unlisted):
        rp = replay_dir / f"{v.rule}-{i}.json"
        rp.write_text(
            json.dumps(
                {
                    "property": rep.pid,
                    "key": v.key(rep.pid),
                    "rule": v.rule,
                    "loc": v.loc,
                    "where": v.where,
                    "construct": v.construct,
                    "message": v.message,
                    "path": v.path,
                    "rule_text": rep.explanation.get(v.rule, ""),
                },
                indent=1))
        print(f"VIOLATION property={rep.pid} replay={rp}")
        print(f"  {v.loc} {v.where} -- {v.rule} -- {v.message}")
        print(f"  construct: {v.construct}")
        if v.path:
            print(f"  path: {v.path}")
    wall = time.time() - rep.t0
    rules = sorted(rep.explanation)
    explanation = (
        "Static analysis of /repo's current source (ast / syn facts); no "
        "sedpack code is executed. Rules decided: " +
        " | ".join(f"[{r}] {rep.explanation[r]}" for r in rules) +
        (" || NOT decided by this check: " + rep.not_decided
         if rep.not_decided else ""))
    per_rule = {}
    for inst in rep.instances:
        d = per_rule.setdefault(inst["rule"], {"instances": 0, "violated": 0})
        d["instances"] += 1
        if inst["status"] != "discharged":
            d["violated"] += 1
    evidence = {
        "property_id": rep.pid,
        "tier": rep.tier,
        "seed": seed,
        "level": "other",
        "coverage": {
            "explanation": explanation,
            "obligations": rep.obligations,
            "discharged": rep.discharged + len(listed),
            "discharged_note":
                "obligations matching a committed known finding are counted "
                "here and listed under known_findings",
            "evaluations": rep.obligations,
            "distinct_nontrivial": len({(i["rule"], i["where"], i["construct"])
                                        for i in rep.instances}),
            "rule": "one evaluation = one rule obligation at one construct "
                    "of the current tree; distinct = distinct (rule, "
                    "function, construct) triples; all instances of every "
                    "rule in the package are enumerated",
            "exhaustive": True,
            "rules": per_rule,
            "rule_instances": rep.instances,
            "samples": rep.samples[:40] or [{
                "note": "no obligation discharged"
            }],
            "analysed": rep.analysed,
            "known_findings": [{
                "key": v.key(rep.pid),
                "what": f.get("what", "")
            } for v, f in listed],
            "notes": rep.notes,
            "selftest": rep.selftest,
            "checker_cmd": f"./check {rep.pid} --tier {rep.tier}",
            "trusted_base": rep.assumptions,
        },
        "assumptions": rep.assumptions,
        "wall_s": round(wall, 3),
        "violations": len(unlisted),
    }
    EVIDENCE_DIR.mkdir(exist_ok=True)
    (EVIDENCE_DIR / f"{rep.pid}.json").write_text(json.dumps(evidence, indent=1))
    status = "VIOLATED" if unlisted else "holds"
    print(f"[{rep.pid}] {status}: {rep.obligations} obligations, "
          f"{rep.discharged} discharged, {len(listed)} known finding(s), "
          f"{len(unlisted)} violation(s); rules: " + ", ".join(
              f"{r}={per_rule.get(r, {}).get('instances', 0)}"
              for r in rules) + f"; {wall:.2f}s")
    return 1 if unlisted else 0


def run_rules(mod, ctx, rep, pid: str) -> None:
    """mod.run(ctx, rep); an AnalysisError (vanished anchor, floor) that
    comes after unlisted violations were already established does not hide
    them: the run is reported as violated, with the error as a note."""
    from sa.model import AnalysisError
    try:
        mod.run(ctx, rep)
        deferred = rep.__dict__.get("_deferred_errors")
        if deferred:
            raise AnalysisError("; ".join(deferred))
    except AnalysisError as e:
        known = {f["key"] for f in load_known().get("findings", [])}
        if any(v.key(pid) not in known for v in rep.violations):
            rep.notes.append(f"analysis incomplete after these violations: {e}")
            if rep.tier not in ("selftest", ):
                print(f"ANALYSIS-INCOMPLETE property={pid} (after the "
                      f"violations below were found) {e}")
            return
        raise
