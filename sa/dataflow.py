"""Flow-sensitive forward "tag" analysis over the CFG (may analysis).

State: place -> frozenset(tags). Places are local names and dotted attribute
paths ("self._x.y"). An expression carries the union of the tags of every
place it reads (prefixes included), unless a hook says otherwise (sources,
sanitisers). Container mutation through the usual mutators is a weak update
of the receiver.
"""
from __future__ import annotations

import ast
from typing import Callable

from sa.cfg import CFG, Node
from sa.model import dotted

State = dict[str, frozenset]
MUTATORS = {"append", "extend", "add", "update", "insert", "setdefault",
            "appendleft", "put", "put_nowait"}
EMPTY: frozenset = frozenset()

# hook(expr, state, tags_of) -> frozenset | None (None = default behaviour)
Hook = Callable[[ast.AST, State, Callable[[ast.AST], frozenset]],
                "frozenset | None"]


class TagFlow:

    def __init__(self, cfg: CFG, init: State | None = None,
                 hook: Hook | None = None,
                 call_effect: Callable[[ast.Call, State, "TagFlow"],
                                       None] | None = None,
                 iter_elem: Callable[[frozenset], frozenset] | None = None,
                 store_elem: Callable[[frozenset], frozenset] | None = None):
        self.cfg = cfg
        self.iter_elem = iter_elem or (lambda t: t)
        # tags a container acquires when an element with tags t is stored in
        # it (append / add / insert / put / container[i] = x); when given,
        # container[i] loads go through iter_elem
        self.store_elem = store_elem
        self.hook = hook
        self.call_effect = call_effect
        self.before: dict[Node, State] = {}
        self._run(init or {})

    # -- expression tags -----------------------------------------------------
    def tags(self, expr: ast.AST | None, state: State,
             local: dict[str, frozenset] | None = None) -> frozenset:
        if expr is None:
            return EMPTY
        local = local or {}

        def rec(e: ast.AST) -> frozenset:
            return self.tags(e, state, local)

        if self.hook is not None:
            r = self.hook(expr, state, rec)
            if r is not None:
                return r
        if isinstance(expr, ast.Name):
            if expr.id in local:
                return local[expr.id]
            return state.get(expr.id, EMPTY)
        if self.store_elem is not None and isinstance(
                expr, ast.Subscript) and not isinstance(expr.slice, ast.Slice):
            return self.iter_elem(rec(expr.value))
        if isinstance(expr, ast.Attribute):
            d = dotted(expr)
            if d is not None:
                out = EMPTY
                parts = d.split(".")
                head = parts[0]
                if head in local:
                    out |= local[head]
                for i in range(1, len(parts) + 1):
                    out |= state.get(".".join(parts[:i]), EMPTY)
                # hooks may tag an inner attribute (x.field.method)
                if isinstance(expr.value, ast.Attribute):
                    out |= rec(expr.value)
                return out
            return rec(expr.value)
        if isinstance(expr, (ast.ListComp, ast.SetComp, ast.GeneratorExp,
                             ast.DictComp)):
            loc = dict(local)
            for gen in expr.generators:
                t = self.iter_elem(self.tags(gen.iter, state, loc))
                for n in ast.walk(gen.target):
                    if isinstance(n, ast.Name):
                        loc[n.id] = t
            out = EMPTY
            if isinstance(expr, ast.DictComp):
                # keys are hashable (immutable in practice): only the values
                # can alias caller state
                out |= self.tags(expr.value, state, loc)
            else:
                out |= self.tags(expr.elt, state, loc)
            for gen in expr.generators:
                for c in gen.ifs:
                    pass  # conditions do not flow into the value
            if self.store_elem is not None:
                # the result is a container of those elements
                out = self.store_elem(out)
                if isinstance(expr, ast.GeneratorExp):
                    # ... as lazy as the first source it draws from
                    src = self.tags(expr.generators[0].iter, state, local)
                    out |= frozenset(x for x in src if x == "inf")
            return out
        if isinstance(expr, ast.IfExp):
            t = self.cfg._truth(expr.test)
            if t is True:
                return rec(expr.body)
            if t is False:
                return rec(expr.orelse)
            return rec(expr.body) | rec(expr.orelse)
        if isinstance(expr, ast.NamedExpr):
            return rec(expr.value)
        if isinstance(expr, ast.Lambda):
            params = {a.arg for a in expr.args.args + expr.args.kwonlyargs}
            loc = dict(local)
            for p in params:
                loc[p] = EMPTY
            return self.tags(expr.body, state, loc)
        if isinstance(expr, ast.Constant):
            return EMPTY
        if isinstance(expr, ast.Dict):
            out = EMPTY
            for v in expr.values:
                out |= rec(v)
            return out
        out = EMPTY
        for child in ast.iter_child_nodes(expr):
            if isinstance(child, (ast.expr, ast.keyword)):
                out |= rec(child.value if isinstance(child, ast.keyword) else
                           child)
        return out

    # -- transfer --------------------------------------------------------------
    @staticmethod
    def _assign(target: ast.AST, tags: frozenset, state: State,
                weak: bool = False) -> None:
        if isinstance(target, (ast.Tuple, ast.List)):
            for e in target.elts:
                TagFlow._assign(e, tags, state, weak)
            return
        if isinstance(target, ast.Starred):
            TagFlow._assign(target.value, tags, state, weak)
            return
        if isinstance(target, ast.Subscript):
            TagFlow._assign(target.value, tags, state, weak=True)
            return
        d = dotted(target)
        if d is None:
            if isinstance(target, ast.Attribute):
                TagFlow._assign(target.value, tags, state, weak=True)
            return
        if weak:
            state[d] = state.get(d, EMPTY) | tags
        else:
            # strong update: forget sub-places
            for k in [k for k in state if k.startswith(d + ".")]:
                del state[k]
            state[d] = tags

    def transfer(self, node: Node, state: State) -> State:
        s = dict(state)
        a = node.ast
        if a is not None and node.kind in ("stmt", "test", "call") and \
                not isinstance(a, (ast.FunctionDef, ast.AsyncFunctionDef,
                                   ast.ClassDef)):
            for w in ast.walk(a):
                if isinstance(w, ast.NamedExpr):
                    self._assign(w.target, self.tags(w.value, s), s)
        if node.kind == "stmt":
            if isinstance(a, ast.Assign):
                t = self.tags(a.value, s)
                for tgt in a.targets:
                    if self.store_elem is not None and isinstance(
                            tgt, ast.Subscript):
                        self._assign(tgt.value, self.store_elem(t), s,
                                     weak=True)
                    else:
                        self._assign(tgt, t, s)
            elif isinstance(a, ast.AnnAssign) and a.value is not None:
                self._assign(a.target, self.tags(a.value, s), s)
            elif isinstance(a, ast.AugAssign):
                self._assign(a.target, self.tags(a.value, s), s, weak=True)
            elif isinstance(a, ast.Delete):
                for tgt in a.targets:
                    d = dotted(tgt)
                    if d is not None:
                        s.pop(d, None)
        elif node.kind == "for" and isinstance(a, (ast.For, ast.AsyncFor)):
            self._assign(a.target, self.iter_elem(self.tags(a.iter, s)), s)
        elif node.kind == "with" and isinstance(a, ast.withitem):
            if a.optional_vars is not None:
                self._assign(a.optional_vars, self.tags(a.context_expr, s), s)
        elif node.kind == "except" and isinstance(a, ast.ExceptHandler):
            if a.name:
                s[a.name] = EMPTY
        elif node.kind == "call" and isinstance(a, ast.Call):
            f = a.func
            if isinstance(f, ast.Attribute) and f.attr in MUTATORS:
                t = EMPTY
                args = list(a.args) + [k.value for k in a.keywords]
                if f.attr == "setdefault":
                    args = args[1:]  # the key does not alias
                for arg in args:
                    t |= self.tags(arg, s)
                if self.store_elem is not None and f.attr in (
                        "append", "add", "insert", "appendleft", "put",
                        "put_nowait"):
                    t = self.store_elem(t)
                if t:
                    self._assign(f.value, t, s, weak=True)
            if self.call_effect is not None:
                self.call_effect(a, s, self)
        return s

    def _run(self, init: State) -> None:
        cfg = self.cfg
        self.before = {cfg.entry: dict(init)}
        work = [cfg.entry]
        while work:
            n = work.pop()
            out = self.transfer(n, self.before[n])
            for m, _lab in n.succ:
                cur = self.before.get(m)
                if cur is None:
                    self.before[m] = dict(out)
                    work.append(m)
                    continue
                changed = False
                for k, v in out.items():
                    old = cur.get(k, EMPTY)
                    if not v <= old:
                        cur[k] = old | v
                        changed = True
                if changed:
                    work.append(m)

    def at(self, node: Node) -> State:
        return self.before.get(node, {})

    def tags_at(self, node: Node, expr: ast.AST) -> frozenset:
        return self.tags(expr, self.at(node))


def param_tags(fn, prefix: str = "") -> State:
    """Initial state tagging every parameter with its own name."""
    return {p: frozenset({prefix + p}) for p in fn.params()}
