"""Normalisation used before structural matching, so that rules see through
named temporaries and module-level constants (two of the most common
behaviour-preserving rewrites)."""
from __future__ import annotations

from sa.model import clone as _clone

import ast
import copy

from sa.model import FunctionInfo, Module
from sa.valuation import single_defs


def module_consts(module: Module) -> dict[str, ast.AST]:
    """Module-level NAME = <literal constant>."""
    return {k: v for k, v in module.globals.items()
            if isinstance(v, ast.Constant) and not isinstance(v.value, bool)
            and k.isupper() or (isinstance(v, ast.Constant) and
                                k.startswith("_") and k.upper() == k)}


class _Expander(ast.NodeTransformer):

    def __init__(self, defs: dict[str, ast.AST], consts: dict[str, ast.AST],
                 depth: int):
        self.defs = defs
        self.consts = consts
        self.depth = depth
        self.stack: list[str] = []

    def visit_Name(self, node: ast.Name):
        if not isinstance(node.ctx, ast.Load):
            return node
        if node.id in self.consts:
            return _clone(self.consts[node.id])
        if node.id in self.defs and node.id not in self.stack and \
                len(self.stack) < self.depth:
            self.stack.append(node.id)
            try:
                return self.visit(_clone(self.defs[node.id]))
            finally:
                self.stack.pop()
        return node

    def visit_Lambda(self, node):
        return node

    def visit_NamedExpr(self, node: ast.NamedExpr):
        return self.visit(node.value)


def expand(fn: FunctionInfo, expr: ast.AST | None, depth: int = 6,
           locals_too: bool = True) -> ast.AST | None:
    """Copy of `expr` with single-definition locals replaced by their
    defining expression and module constants by their literal."""
    if expr is None:
        return None
    defs = single_defs(fn) if locals_too else {}
    # walrus targets defined in the function
    for n in fn.body_nodes():
        if isinstance(n, ast.NamedExpr) and isinstance(n.target, ast.Name):
            defs.setdefault(n.target.id, n.value)
    out = _Expander(defs, module_consts(fn.module), depth).visit(
        _clone(expr))
    return ast.fix_missing_locations(out)


def canon(fn: FunctionInfo, expr: ast.AST | None, locals_too: bool = True) -> str:
    e = expand(fn, expr, locals_too=locals_too)
    return ast.unparse(e) if e is not None else "<none>"
