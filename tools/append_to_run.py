#!/venv/bin/python
"""tools/append_to_run.py <rules file> <<< 'code block (4-space indented)'
Append statements at the end of the module's run() function."""
import re, sys, pathlib
p = pathlib.Path(sys.argv[1]); s = p.read_text(); block = sys.stdin.read().rstrip("\n") + "\n"
i = s.index("\ndef run(ctx")
m = re.search(r"\n\n\n(?=\S)", s[i + 1:])
j = i + 1 + m.start() if m else len(s)
s = s[:j].rstrip("\n") + "\n" + block + s[j:]
p.write_text(s)
