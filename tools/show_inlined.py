#!/venv/bin/python
"""Print the normalised (helper-inlined) source of functions under a patch."""
import sys, ast, pathlib
sys.path.insert(0, "/verif")
from sa.selftest import apply_unified_diff
from sa.context import Context
from sa.model import Repo
d = pathlib.Path(sys.argv[1]); names = sys.argv[2:]
overlay = apply_unified_diff((d / "patch.diff").read_text(), pathlib.Path("/repo")) if d.is_dir() else {}
ctx = Context(overlay=overlay)
print("\n".join(ctx.inline_log))
for n in names:
    for fn in ctx.repo.all_functions():
        if fn.fq.endswith(n):
            print("=" * 20, fn.fq)
            print(ast.unparse(fn.node))
