#!/venv/bin/python
"""tools/confirm_seeded.py <PID> <mK> [--src DIR]

Independently confirm a seeded change produced by a sub-agent and file it
under /verif/seeded/<PID>-<mK>/ :
  1. fresh scratch worktree of /repo HEAD (outside /repo and /verif),
  2. demonstration on the pristine tree  -> must pass (exit 0),
  3. `git apply patch.diff`; demonstration -> must fail (exit != 0),
  4. the complete existing test suite on the changed tree -> must pass,
  5. worktree removed again.
Nothing is ever applied to /repo itself.
"""
import json
import os
import re
import shutil
import subprocess
import sys
import time
from pathlib import Path

pid, mk = sys.argv[1], sys.argv[2]
src = Path(sys.argv[4]) if len(sys.argv) > 4 else Path(f"/var/tmp/wt/{pid}/out/{mk}")
name = f"confirm_{pid}_{mk}"
wt = Path(f"/var/tmp/wt/{name}")
dest = Path(f"/verif/seeded/{pid}-{mk}")


def sh(cmd, **kw):
    return subprocess.run(cmd, shell=True, capture_output=True, text=True, **kw)


def run_demo():
    env = dict(os.environ, PYTHONPATH=str(wt / "src"), TF_CPP_MIN_LOG_LEVEL="3",
               CARGO_NET_OFFLINE="true")
    if (src / "demo.sh").exists():
        # shell demonstrations locate the tree relative to themselves
        dst = wt / "out" / src.name
        if dst.exists():
            shutil.rmtree(dst)
        shutil.copytree(src, dst)
        r = subprocess.run(["bash", str(dst / "demo.sh")], cwd=wt, env=env,
                           capture_output=True, text=True, timeout=3600)
    elif (src / "demo.py").exists():
        r = subprocess.run(["/venv/bin/python", str(src / "demo.py")], cwd=wt,
                           env=env, capture_output=True, text=True, timeout=600)
    else:
        return None, "no demo"
    tail = (r.stdout + r.stderr).strip().splitlines()[-3:]
    return r.returncode, " | ".join(tail)[-400:]


if wt.exists():
    sh(f"git -C /repo worktree remove --force {wt}")
    shutil.rmtree(wt, ignore_errors=True)
r = sh(f"git -C /repo worktree add -q --detach {wt} HEAD")
assert r.returncode == 0, r.stderr
for so in Path("/repo/src/sedpack").glob("_sedpack_rs*.so"):
    shutil.copy(so, wt / "src/sedpack")
head = sh("git -C /repo rev-parse --short HEAD").stdout.strip()
meta = {"property": pid, "variant": mk, "repo_head": head,
        "confirmed_at": time.strftime("%Y-%m-%dT%H:%M:%SZ", time.gmtime())}
try:
    rc0, out0 = run_demo()
    meta["demo_on_pristine"] = {"exit": rc0, "tail": out0}
    ap = sh(f"git -C {wt} apply --exclude='out/*' {src / 'patch.diff'}")
    meta["patch_applies"] = ap.returncode == 0
    if ap.returncode != 0:
        meta["patch_error"] = ap.stderr[-300:]
    touched = sh(f"git -C {wt} diff --stat").stdout.strip().splitlines()
    meta["files_touched"] = [l.split("|")[0].strip() for l in touched[:-1]]
    rust_only = bool(meta["files_touched"]) and all(
        f.startswith("rust/") for f in meta["files_touched"])
    # make sure build tools notice the change (mtime granularity)
    time.sleep(1.2)
    for f in (wt / "rust" / "src").glob("*.rs"):
        f.touch()
    rc1, out1 = run_demo()
    meta["demo_on_changed"] = {"exit": rc1, "tail": out1}
    env = dict(os.environ, PYTHONPATH=str(wt / "src"), TF_CPP_MIN_LOG_LEVEL="3")
    t0 = time.time()
    r = subprocess.run(
        ["/venv/bin/python", "-m", "pytest", "-q", "-p", "no:cacheprovider",
         "--timeout=900", "-x", "tests"], cwd=wt, env=env, capture_output=True,
        text=True, timeout=3600)
    last = [l for l in r.stdout.splitlines() if "passed" in l or "failed" in l
            or "error" in l][-1:]
    m = re.search(r"(\d+) passed", last[0]) if last else None
    meta["suite_on_changed"] = {"exit": r.returncode,
                                "summary": last[0] if last else "?",
                                "passed": int(m.group(1)) if m else 0,
                                "wall_s": round(time.time() - t0)}
    meta["confirmed"] = bool(rc0 == 0 and ap.returncode == 0 and rc1 not in (0, None)
                             and r.returncode == 0 and m and int(m.group(1)) >= 205)
    notes = (src / "notes.md").read_text() if (src / "notes.md").exists() else ""
    meta["needs_to_manifest"] = notes[:1500]
    meta["what_was_run"] = [
        f"git worktree add {wt} {head}; cp _sedpack_rs*.so",
        "PYTHONPATH=<wt>/src /venv/bin/python demo.py   (pristine)",
        "git apply patch.diff",
        "PYTHONPATH=<wt>/src /venv/bin/python demo.py   (changed)",
        "PYTHONPATH=<wt>/src /venv/bin/python -m pytest -q -p no:cacheprovider --timeout=900 -x tests",
        f"git worktree remove --force {wt}",
    ]
finally:
    sh(f"git -C /repo worktree remove --force {wt}")
    shutil.rmtree(wt, ignore_errors=True)
dest.mkdir(parents=True, exist_ok=True)
for f in ("patch.diff", "demo.py", "demo.sh", "demo_test.rs", "notes.md"):
    if (src / f).exists():
        shutil.copy(src / f, dest / f)
(dest / "meta.json").write_text(json.dumps(meta, indent=1))
print(pid, mk, "CONFIRMED" if meta.get("confirmed") else "NOT-CONFIRMED",
      json.dumps({k: meta.get(k) for k in ("demo_on_pristine", "demo_on_changed", "suite_on_changed")})[:600])
