#!/bin/sh
# tools/run_all.sh [quick|thorough]  - run every registered check, one line each
cd "$(dirname "$0")/.." || exit 2
tier="${1:-quick}"
rc=0
for f in sa/rules/c[0-9][0-9].py; do
  id=$(basename "$f" .py | tr a-z A-Z)
  out=$(./check "$id" --tier "$tier" 2>&1); code=$?
  echo "$id exit=$code $(echo "$out" | tail -1 | cut -c1-160)"
  [ $code -ne 0 ] && rc=1 && echo "$out" | grep -E "VIOLATION|ANALYSIS-ERROR|SELFTEST" | head -5
done
exit $rc
