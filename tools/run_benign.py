#!/venv/bin/python
"""tools/run_benign.py [collect] [NAME ...]

Behaviour-preserving refactorings (made by sub-agents without access to
/verif, each passing the complete suite) must not raise any alarm.
`collect` first copies /var/tmp/wt/R*/out/r*/ into /verif/benign/<R>-<rK>/.
Each patch is applied in a scratch worktree of /repo HEAD (never to /repo);
all 20 quick checks run with VERIF_REPO pointing there. Writes
benign/RESULTS.json and benign/RESULTS.md."""
import json
import os
import shutil
import subprocess
import sys
from concurrent.futures import ThreadPoolExecutor
from pathlib import Path

VERIF = Path("/verif")
WT = Path("/var/tmp/wt/benignrun")
EV = Path("/var/tmp/wt/benignrun_evidence")
PIDS = [f"C{i:02d}" for i in range(1, 21)]


def sh(cmd, **kw):
    return subprocess.run(cmd, shell=True, capture_output=True, text=True, **kw)


def run_check(pid):
    env = dict(os.environ, VERIF_REPO=str(WT), VERIF_EVIDENCE_DIR=str(EV))
    r = subprocess.run([str(VERIF / "check"), pid, "--tier", "quick"],
                       capture_output=True, text=True, env=env, cwd=VERIF)
    lines = r.stdout.splitlines()
    viol = [lines[i + 1].strip() for i, l in enumerate(lines)
            if l.startswith("VIOLATION") and i + 1 < len(lines)]
    err = [l for l in lines if l.startswith("ANALYSIS-ERROR")]
    return pid, r.returncode, viol, err


def main():
    args = sys.argv[1:]
    if args and args[0] == "collect":
        args = args[1:]
        for d in sorted(Path("/var/tmp/wt").glob("R*/out/r*")):
            if (d / "patch.diff").exists():
                dest = VERIF / "benign" / f"{d.parent.parent.name}-{d.name}"
                dest.mkdir(parents=True, exist_ok=True)
                for f in ("patch.diff", "notes.md"):
                    if (d / f).exists():
                        shutil.copy(d / f, dest / f)
    names = args or sorted(p.name for p in (VERIF / "benign").iterdir()
                           if (p / "patch.diff").exists())
    if WT.exists():
        sh(f"git -C /repo worktree remove --force {WT}")
        shutil.rmtree(WT, ignore_errors=True)
    assert sh(f"git -C /repo worktree add -q --detach {WT} HEAD").returncode == 0
    EV.mkdir(parents=True, exist_ok=True)
    rp = VERIF / "benign" / "RESULTS.json"
    results = json.loads(rp.read_text()) if rp.exists() and args else {}
    try:
        for name in names:
            d = VERIF / "benign" / name
            sh(f"git -C {WT} checkout -q -- . && git -C {WT} clean -fdq")
            ap = sh(f"git -C {WT} apply {d / 'patch.diff'}")
            if ap.returncode != 0:
                results[name] = {"error": "patch does not apply: " + ap.stderr[-200:]}
                print(name, "PATCH-ERROR", flush=True)
                continue
            with ThreadPoolExecutor(8) as ex:
                out = list(ex.map(run_check, PIDS))
            alarms = {p: v[:3] for p, rc, v, e in out if rc == 1}
            errors = {p: e for p, rc, v, e in out if rc == 2}
            results[name] = {"alarms": alarms, "analysis_errors": errors}
            print(name, "silent" if not alarms and not errors else
                  ("FALSE-ALARM:" + ",".join(alarms) if alarms else "") +
                  (" ANALYSIS-ERROR:" + ",".join(errors) if errors else ""),
                  flush=True)
    finally:
        sh(f"git -C /repo worktree remove --force {WT}")
        shutil.rmtree(WT, ignore_errors=True)
        shutil.rmtree(EV, ignore_errors=True)
    rp.write_text(json.dumps(results, indent=1, sort_keys=True))
    lines = ["# Behaviour-preserving refactorings vs checks (quick tier)", "",
             "| refactoring | result | detail |", "|---|---|---|"]
    for name, r in sorted(results.items()):
        if "error" in r:
            lines.append(f"| {name} | patch error | {r['error']} |")
            continue
        res = "silent" if not r["alarms"] and not r["analysis_errors"] else (
            "ALARM" if r["alarms"] else "analysis-error")
        det = "; ".join(f"{p}: {v[0][:140]}" for p, v in r["alarms"].items()) + \
            "; ".join(f"{p}: {e[0][:140]}" for p, e in r["analysis_errors"].items())
        lines.append(f"| {name} | {res} | {det.replace('|', '/')} |")
    (VERIF / "benign" / "RESULTS.md").write_text("\n".join(lines) + "\n")


if __name__ == "__main__":
    main()
