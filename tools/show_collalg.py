#!/venv/bin/python
"""tools/show_collalg.py <patch-dir|-> <function suffix>: print collection terms."""
import sys, pathlib
sys.path.insert(0, "/verif")
from sa.selftest import apply_unified_diff
from sa.context import Context
from sa.collalg import CollAlg, pretty
d = pathlib.Path(sys.argv[1])
overlay = apply_unified_diff((d / "patch.diff").read_text(), pathlib.Path("/repo")) if d.is_dir() else {}
ctx = Context(overlay=overlay)
for fn in ctx.repo.all_functions():
    if fn.fq.endswith(sys.argv[2]):
        ca = CollAlg(fn)
        for k, v in ca.env.items():
            print(f"{k} = {pretty(v)}")
