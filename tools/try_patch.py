#!/venv/bin/python
"""tools/try_patch.py <dir-with-patch.diff> [PID ...]  - run checks on the
current tree with the patch applied IN MEMORY (overlay), printing verdicts."""
import importlib
import sys
from pathlib import Path

sys.path.insert(0, "/verif")
from sa.context import Context  # noqa: E402
from sa.model import AnalysisError, repo_root  # noqa: E402
from sa.report import Report, load_known  # noqa: E402
from sa.selftest import apply_unified_diff  # noqa: E402

d = Path(sys.argv[1])
pids = sys.argv[2:] or [f"C{i:02d}" for i in range(1, 21)]
overlay = apply_unified_diff((d / "patch.diff").read_text(), repo_root())
if overlay is None:
    print("patch does not apply")
    sys.exit(3)
known = {f["key"] for f in load_known().get("findings", [])}
for pid in pids:
    mod = importlib.import_module(f"sa.rules.{pid.lower()}")
    rep = Report(pid, "quick")
    try:
        from sa.report import run_rules
        run_rules(mod, Context(overlay=overlay), rep, pid)
        if rep.unmet_floors() and not rep.violations:
            raise AnalysisError("; ".join(rep.unmet_floors()))
        vs = [v for v in rep.violations if v.key(pid) not in known]
        print(pid, "VIOLATED" if vs else "silent")
        for v in vs[:6]:
            print("   ", v.rule, v.loc, v.where, "--", v.message[:150], "| construct:", v.construct[:100])
    except AnalysisError as e:
        print(pid, "ANALYSIS-ERROR", str(e)[:200])
