#!/bin/sh
# tools/mkwt.sh <name>  - scratch worktree of /repo HEAD under /var/tmp/wt/<name>
# (outside /repo and /verif), with the prebuilt git-ignored native module copied in.
set -e
name="$1"
dir="/var/tmp/wt/$name"
mkdir -p /var/tmp/wt
if [ -d "$dir" ]; then git -C /repo worktree remove --force "$dir" 2>/dev/null || rm -rf "$dir"; fi
git -C /repo worktree add -q --detach "$dir" HEAD
cp /repo/src/sedpack/_sedpack_rs*.so "$dir/src/sedpack/"
echo "$dir"
