#!/bin/sh
# tools/confirm_benign.sh <NAME>  - run the complete suite on /repo HEAD + benign/<NAME>/patch.diff
# in a scratch worktree (outside /repo and /verif); prints "<NAME> <pytest summary>".
name="$1"
wt="/var/tmp/wt/cb_$name"
git -C /repo worktree remove --force "$wt" 2>/dev/null; rm -rf "$wt"
git -C /repo worktree add -q --detach "$wt" HEAD || exit 2
cp /repo/src/sedpack/_sedpack_rs*.so "$wt/src/sedpack/"
if git -C "$wt" apply "/verif/benign/$name/patch.diff"; then
  res=$(cd "$wt" && PYTHONPATH="$wt/src" TF_CPP_MIN_LOG_LEVEL=3 /venv/bin/python -m pytest -q -p no:cacheprovider --timeout=900 tests 2>&1 | tail -1)
else
  res="PATCH DOES NOT APPLY"
fi
git -C /repo worktree remove --force "$wt"; rm -rf "$wt"
echo "$name $res"
