#!/venv/bin/python
"""Regenerate /verif/MANIFEST.json from the table below."""
import json
from pathlib import Path

P = {
 "C01": ("Representation agreement between writers and readers, decided from source: safe-cast gate and its polarity, C memory order and little-endian byte order on both sides (finite-domain evaluation of the byte-order normalisation), compress/decompress arms pairing the same codec, Python writer vs Rust decoder codec families, TFRecord writer/reader dtype tables incl. container capacity, copies in buffering writers, npz reader shape. A necessary condition of round-trip fidelity for every input at once; bit-identity of concrete values is not decided.",
         "table extraction + finite-domain evaluation + escape analysis over ast / syn facts",
         "Trusted: NumPy/TensorFlow/codec library semantics frozen in tables (FloatList=float32, FixedLenFeature dtypes, can_cast('safe'), byteswap), package annotations. Known finding: npz bytes lose trailing NUL."),
 "C02": ("Ownership / pairing structure behind exactly-once delivery: single-iterator discipline, bound-first prefill zips, no lending of a reused iterator to a closing asyncstdlib tool, slot ownership in the four buffer generators (CFG typestate), process_record applied exactly once on every path (path-count dataflow), complete shard walk, whole-batch mapping, common shard stream shape, Rust dispatch/cursor. The multiset under real thread timings is not decided.",
         "CFG typestate + tag dataflow + path-count abstract interpretation",
         "Trusted: asyncstdlib tools close their inputs (read in 3.13.0), zip pulls left to right, generator protocol. Timing-dependent behaviour is out of reach of static analysis."),
 "C03": ("With shuffle specialised to 0 (constants propagated interprocedurally, constructor fields aliased) no randomising / unordered combinator and no non-deterministic tf interleave is reachable in any interface; no order-destroying operation touches a shard sequence; walk order own-shards-then-children; ordered batch map; grouping and merge keep update order; Rust rotation. Library ordering guarantees are assumed.",
         "interprocedural partial evaluation + effect table + tag dataflow",
         "Trusted: ThreadPoolExecutor.map / chain / tf interleave(cycle_length=1) keep order; dict insertion order."),
 "C04": ("Accounting invariant n = sum(shards)+sum(children) preserved by every function that writes those fields (symbolic delta interpreter, who-may-write by annotation types); counters move by one only after a normal return of the write; number_of_shards formula; split grouping and dump-after-update of the description. Concrete histories are not enumerated.",
         "symbolic accounting-delta interpreter + must-precede on the CFG",
         "Trusted: loaded lists satisfy the invariant (induction), annotations identify ShardsList expressions."),
 "C05": ("check() hashes every reachable list recursively and every file of every shard of every split with the configured algorithms and each digest comparison, evaluated under {equal,different}, raises exactly on inequality of whole tuples and cannot be bypassed; root digests compared when supplied; same enumeration routine as iteration.",
         "coverage rules + polarity evaluation of comparisons + CFG bypass check",
         "Trusted: hash_checksums digests the whole file (C16), tuple equality semantics. Collision resistance not decided."),
 "C06": ("Every file-system create/rename/delete/mkdir site of the package is classified (fresh uuid name, shard file with unique construction chain, atomic publish, mkdir exist_ok); typestate of safe_update_file (fresh sibling temp, closed before replace, hash after replace on the target); commit order shard -> hash -> list -> parents -> description as must-precede in every function on the path; writers release their handle in close().",
         "effect classification + freshness dataflow + must-precede (reachability on the CFG)",
         "Trusted: Path.replace is atomic within a directory, uuid4 names are fresh, with-block closes the file. No fsync: OS crashes excluded by the property."),
 "C07": ("No handler on a read path swallows an error (control-flow only / re-raise / proven forwarding); worker threads forward a failure of the caller's function on every exceptional path and the consumer re-raises it (typestate on the CFG incl. exception edges); executor.map result consumed; Rust consumer must not collapse recv() errors into end-of-stream (known finding).",
         "handler audit + worker typestate over exception edges + syn facts",
         "Trusted: ThreadPoolExecutor/asyncio/tf.data propagate exceptions; a panicking Rust thread disconnects its channel. Known finding: Rust recv().unwrap_or_default()."),
 "C08": ("Existing lists are loaded then extended (constructor unreachable when the file exists, by boolean specialisation); record lists only appended to; merge de-duplicates a known child against its update and its recursion indices agree; create refuses (on the resolved root) before any effect; no destructive FS effect anywhere.",
         "who-may-construct + boolean specialisation + effect classification",
         "Trusted: one live handle at a time (quantifier). Merge correctness over concrete histories not enumerated."),
 "C09": ("Each worker's filler gets a per-element uuid4 sub-directory and auto_update_dataset=False (followed through helpers); with that constant the filler API cannot reach dataset-level write_config/merge (specialised call graph); every written path contains the sub-directory; ordered pool map and aligned zip; infos collected from the pool's outputs, all of them, merge after the pool.",
         "partial evaluation + call-graph reachability + tag dataflow",
         "Trusted: Pool.imap/map ordered, default pickling carries _updated_infos. Process schedules are not explored."),
 "C10": ("Interval analysis of written - limit over write_example's CFG (entry invariant, limit >= 1): room before every write, invariant at normal and exceptional exits, rollover only for a full shard; shard rebinding coupled with counter reset and close; close_shard only from the guarded rollover and from exit under written >= 1.",
         "counter interval abstract interpretation + who-may-call",
         "Trusted: examples_per_shard >= 1 (quantifier); only write_example moves the counter (checked)."),
 "C11": ("Escape analysis: the caller's metadata object reaches no longer-lived store without a deep copy (flow-sensitive, into callees); rollover guard evaluated under {differ,equal} of the comparison between the argument and the open shard's stored metadata; attach after rollover, before the write, on the written shard.",
         "escape analysis + valuation of the rollover guard + ordering on the CFG",
         "Trusted: copy.deepcopy / JSON round trip give an independent object."),
 "C12": ("Forwarding completeness: every selection option accepted on both ends of a call edge among the selection-carrying functions is passed on (def-use, constructor fields as aliases); only the selection routine enumerates shards; its filter / first-k / per-metadata-limit stages have the right shape and guards; emptiness test follows the filter on every path.",
         "forwarding completeness over the resolved call graph + CFG ordering",
         "Trusted: annotations of the iteration mixin. Examples actually yielded are not compared at run time."),
 "C13": ("Accounting clauses of the lazy pool only: workers started = active counter = stop sentinels (same expression); worker typestate (one put per item incl. exceptional exit, sentinel branch leaves the loop); consumer: sentinel decrements by one, otherwise exactly one enqueue and one yield per result; endless sentinel tail on one shared iterator; reset on every exit. Interleaving correctness is NOT decided.",
         "typestate over the CFG + expression agreement",
         "Trusted: queue.Queue, threading. Schedules need a model checker: explicitly out of scope of this family."),
 "C14": ("Laziness typing: possibly-infinite values (helper inputs, cycle, tf repeat, as_numpy_common unless literal repeat=False) never reach an eager consumer; every pull loop without a yield is bounded by configuration names only; buffers grow only in bounded prefills; read parallelism comes from file_parallelism; Rust pulls one task per worker/result and wraps the stream lazily.",
         "Fin/Inf tag typing + loop-bound rules + syn facts",
         "Trusted: executor.map eager, generators/combinators lazy. Numeric bounds and memory use not decided."),
 "C15": ("Cross-language tables (compression names <-> variants <-> decoder families vs the Python writer, FlatBuffers vtable slots in .fbs / generated Python / generated Rust), literal repeat=False and per-epoch re-creation, positional decode with the shared decode_array, rotation protocol of the parallel map (same index received/refilled/advanced, successor modulo length, k-th task to k-th worker), drop order, shard cursor, state map. Output equality under timing not decided.",
         "syn-based Rust AST rules + table agreement + ast rules",
         "Trusted: mpsc channels FIFO; Rust analysed at syntax level (no type resolution)."),
 "C16": ("Algorithm name -> constructor of the same name (hashlib fall-through unchanged, all HashChecksumT members covered); the read loop feeds every hash object exactly the bytes of each round until EOF; hex digests in the order of an order-preserving comprehension over `hashes`; every digest-recording call passes the configured algorithms (literal () only where the record is discarded).",
         "table + dataflow + structural loop rules",
         "Trusted: hashlib/xxhash implement the named algorithms; readinto semantics. Digest values not computed."),
 "C17": ("Every Path field of a persisted model has a validator that by boolean specialisation over {'..' in parts, is absolute} raises when either holds and returns its argument otherwise; same guard before the filler stores its sub-directory; every metadata-derived read path is joined under the root (taint with parameter summaries); resolved-vs-resolved containment test dominates the list read.",
         "validator completeness by boolean specialisation + taint analysis",
         "Trusted: pathlib lexical join semantics, pydantic runs validators on every construction. Symlinks are outside the property's input space."),
 "C18": ("Validate-then-commit: shape gate precedes _write and raises for a differing fixed-size attribute; per writer no fallible step is reachable after the first store into the example store (commit table, loops included); fb rejections precede builder mutation; counters after a normal return only; cast gate and TFRecord dtype tables shared with C01.",
         "reachability after commit nodes on the CFG + boolean specialisation + tables",
         "Trusted: list.append/dict.setdefault infallible; close() writes the example store named in the commit table."),
 "C19": ("as_numpy_common returns cycle(complete selected list) iff repeat (shuffle after cycle), the finite list otherwise; tf repeat() on the path dataset iff repeat, before shuffle/read; RustGenerator.__call__ loops while self._repeat around finite epochs; repeat/split/shuffle forwarded on every call edge with one documented table exception; repeat defaults to True everywhere.",
         "partial evaluation + tag dataflow + forwarding completeness",
         "Trusted: itertools.cycle, tf repeat() semantics. Periodicity at run time not decided."),
 "C20": ("Taint: dataset root and resolve/absolute/expanduser results never reach a persisted path field (callees specialised on literal flags); version gate evaluated under recorded {<,=,>} running raises exactly on newer; every disk load of the description passes the gate; models dumped with exclude_defaults have literal defaults only; dump/load classes agree; root resolved once at construction.",
         "taint analysis with specialised summaries + ordering evaluation + default-literal table",
         "Trusted: pydantic restores omitted fields from declared defaults; semver compare returns -1/0/1. JSON fidelity of arbitrary metadata not decided."),
}

# clauses added during the seeded / refactoring rounds (appended to the texts above)
EXTRA = {
 "C01": " Also: no dtype conversion between the byte-order test and the dump; little-endian pinning of the reader dtype on every path; TFRecord writer table obtained by evaluating the dispatch for every dtype name of a frozen universe (any syntactic form); npz buffers saved unchanged.",
 "C02": " Also: iteration methods keep no state on the dataset object; hand-over protocol of the lazy pool (blocking gets, one sentinel count, queue ownership); no memoisation of file-derived results; walk decided on the collection-algebra term of the generator.",
 "C03": " Also: for all 8 combinations of selection options the returned paths derive from the walk through filter / prefix slice / map only (collection algebra); merge order as 'no order-destroying constructor on the data path from updates to the re-attached children'.",
 "C04": " Also: merge de-duplication and grouping key (shared with C08), re-attached child records are fresh merge results (also when the list is rebound), writer constructors create no file.",
 "C05": " Also: the walk check() relies on is complete (shared with C02.walk); current_metadata_checksums returns only digests computed in that call; no memoisation of file-derived results.",
 "C06": " Also: no iteration entry point reaches hash_checksums (a reader must tolerate the legitimate intermediate states of a running or crashed writer); recursive merges never after the own write.",
 "C07": " Also: no __exit__ returns a truthy value while an exception is in flight; contextlib.suppress judged like its handler; no glob / existence test on read paths; only the native interface uses the native reader.",
 "C09": " Also: who-may-create/delete classification (a writer touches only its own fresh files) and load-before-extend of existing lists, shared with C06/C08.",
 "C11": " Also: shard_filter and custom_metadata_type_limit forwarded on every call edge that reaches the selection routine; no memoisation of parsed shard lists.",
 "C12": " Also: delegates accept every option of the delegating interface; group key built from injective operations; no context manager of the iteration module suppresses the empty-selection error.",
 "C13": " Also: queue ownership (who may get/put on which queue, no polling), unbounded queues, sentinels counted at one place, failure forwarding of BaseException, __exit__ propagates.",
 "C14": " Also: streams of streams (Iterable[Iterable[T]]) keep their laziness typing through zip/next/islice and containers; skipping is lazy; in-flight bound of the lazy pool.",
 "C15": " Also: channel kinds, release path of the generator, epoch freshness, the key of a new static iterator does not depend on the map's content.",
 "C16": " Also: read buffer private to the call; no memoisation; parent lists record digests of child lists rewritten in the same call (fresh records).",
 "C17": " Also: the object whose parts / absoluteness is tested is the validated path itself (same path flavour), not a re-interpretation.",
 "C18": " Also: rollover validates before closing the old shard; FlatBuffers builder internals are not assigned (one table exception); TFRecord writer/reader agreement evaluated per dtype name.",
 "C19": " Also: whole-batch mapping and epoch freshness (shared with C02/C15), native repeat flag reaches the Rust constructor, no asyncstdlib tool closes the endless source.",
 "C20": " Also: every read of a persisted JSON names the encoding it was written with; atomic publish temp file in the target's directory; expanduser guarded against RuntimeError; return tags of internal callees by least fixpoint.",
}
EXTRA2 = {'C01': ' bytes / str payloads are stored as given (no NumPy string scalar on the way).', 'C02': ' process_record counted as a flow of application counts over the yielded / returned streams; from_generator gets a callable that builds a fresh iterator per pass.', 'C03': ' from_generator gets a fresh iterator per pass.', 'C04': ' every list a session touched is written and reported on exit.', 'C05': ' with expected root digests supplied no path of check() skips computing the current ones.', 'C06': ' readers never use the recorded totals.', 'C07': ' npz arrays of unequal length raise (no zip truncation).', 'C08': " the handle's root is resolved at construction.", 'C09': ' digests recorded on the way up use the configured algorithms.', 'C10': ' the stored label is an equality-preserving copy; a shard is listed only after its file is complete.', 'C11': ' the stored label is an equality-preserving copy; the predicate filter is the first selection stage.', 'C12': ' selection stages compose as filter, first-k, per-kind limit for all 8 option combinations (collection algebra); option parameters are never rebound; unknown file types are refused (evaluated).', 'C13': ' prefill size >= thread count (evaluated for 1..512); no clean-up of the pool when a generator is closed.', 'C14': " leaving the pool's context always stops the workers.", 'C16': ' the hash objects are map(hashes, ..) in order (collection algebra).', 'C18': " _write keeps no per-writer state besides the example store and its error paths do not touch the writer's resources.", 'C19': ' workers leave their loop only on a sentinel; shuffle helpers end by the iterator protocol only; epoch rule evaluated on the CFG specialised on repeat.', 'C20': " create() persists the caller's description first; pydantic validators of persisted models return their argument."}
EXTRA3 = {
    'C01': ' no dtype but float32 is stored in a FloatList (float32 itself is a recorded finding: signalling NaNs are quieted); writers keep no per-example scratch state on self.',
    'C02': ' the interleaving buffer has lower bound >= 1 at every round_robin call; a one-shot iterator is not consumed again after being exhausted.',
    'C06': ' an existing list is loaded, never recreated, before it is renamed into place.',
    'C07': ' numpy.load never runs with allow_pickle; the consumer is never blocked on a queue it does not own before re-raising.',
    'C10': ' the rollover guard evaluated at written = 0 is false for every value of the other conditions (an empty shard is never closed or listed).',
    'C11': ' an empty (not None) metadata value never replaces the label of a non-empty labelled shard; one-shot selection iterators are consumed once.',
    'C12': ' tf.data gets a generator factory; one-shot selection iterators are consumed once.',
    'C13': ' the stop batch of finish_and_reset is unconditional once the queue exists.',
    'C14': ' the native iterator handle is dropped or replaced only after its __exit__; file_parallelism is never rebound to a value not bounded by itself.',
    'C15': ' no attribute value bypasses decode_array.',
    'C16': ' no holder keeps a copy of the DatasetStructure (all hash sites read the live algorithm tuple).',
    'C17': ' the containment test is made on the complete resolved path of the file that is read.',
    'C18': ' DatasetFiller.__exit__ publishes on every path, also when the block raised.',
    'C20': ' the version refusal is not caught inside _load; persisted models set no value-transforming pydantic option.',
}
for _k, _v in EXTRA2.items():
    EXTRA[_k] = EXTRA.get(_k, '') + _v
EXTRA4 = {
    'C02': ' the handle\'s root is resolved by the file system.',
    'C03': ' shard lists are only appended to.',
    'C04': ' shard file names derive from uuid4().',
    'C08': ' the parent merges the infos returned by the workers.',
    'C09': ' the in-memory description has one writer (the constructor) and nothing customises pickling.',
    'C10': ' after a close the progress registry points at the new shard before the write is attempted.',
    'C11': ' loading a list does not rewrite metadata values; the walk yields every shard.',
    'C13': ' the queue is stored on the pool before any worker starts; the sentinel is recognised by type.',
    'C14': ' hand-over buffers created in the iteration modules have a positive capacity; a failing worker reports to the consumer.',
    'C15': ' every example is a dictionary created for it; the native thread count has lower bound >= 1.',
    'C16': ' a rewritten list is re-hashed into its parent on every exit of the filler.',
    'C17': ' metadata files are parsed only through the validating models.',
    'C18': ' after a close the progress registry points at the new shard before the write is attempted.',
    'C19': ' every stream gets its own pool; the batch size is an integer >= 1.',
}
for _k in [f"C{i:02d}" for i in range(1, 21)]:
    EXTRA4[_k] = EXTRA4.get(_k, '') + ' nothing read from files or the environment is memoised (decorators and hand-made caches).'
for _k, _v in EXTRA3.items():
    EXTRA[_k] = EXTRA.get(_k, '') + _v
for _k, _v in EXTRA4.items():
    EXTRA[_k] = EXTRA.get(_k, '') + _v
EXTRA5 = {
    'C01': ' tf.TensorSpec declarations carry the attribute\'s own dtype and shape.',
    'C02': ' no assert / log argument performs work the program needs.',
    'C04': ' lists are loaded at the time of use (not in constructors); codecs pair the same library calls.',
    'C06': ' closing a shard computes its digests (call graph).',
    'C07': ' the native worker only opens one shard per task (no decoding in the worker).',
    'C10': ' no mutable container is shared through a class body; no effectful assert.',
    'C14': ' native tasks are single shards; every interleaving buffer is bounded by file_parallelism.',
    'C15': ' the native thread count is the caller\'s; no effectful assert.',
    'C16': ' the file is read once per set of hash objects; failures of the digest computation are re-raised.',
    'C19': ' log arguments do not consume the stream.',
    'C20': ' write_config always saves the description; safe_update_file writes exactly the text it was given.',
}
for _k, _v in EXTRA5.items():
    EXTRA[_k] = EXTRA.get(_k, '') + _v
EXTRA6 = {
    'C01': ' shard readers keep no per-shard state on the shared reader object.',
    'C02': ' process_record is mapped before batching in the tf.data interface; readers are stateless.',
    'C07': ' no done-callbacks; every background task is awaited on a normal path.',
    'C10': ' the counter is += 1 directly after the write (nothing fallible between).',
    'C11': ' validators are registered (outermost decorator) and no serializer rewrites persisted values.',
    'C12': ' selected paths are never treated as patterns.',
    'C13': ' the consumer classifies items only by the pool\'s marker classes.',
    'C15': ' Drop joins the workers after telling them to stop.',
    'C17': ' validators are registered (outermost decorator).',
    'C18': ' the counter is += 1 directly after the write (nothing fallible between).',
    'C20': ' validators are registered; no serializer rewrites persisted values.',
}
for _k, _v in EXTRA6.items():
    EXTRA[_k] = EXTRA.get(_k, '') + _v
EXTRA7 = {
    'C01': ' the npz reader never converts stored values; the native decoder hands out a dictionary of its own per example.',
    'C03': ' no tf.data stage is asked for deterministic=False with shuffling off.',
    'C06': ' the npz writer does not consume its buffers before the save (a retried close writes everything).',
    'C08': ' reported shard-list infos are accumulated in sequences, never in keyed / set collections.',
    'C09': ' reported infos are accumulated in sequences only; a constructed writer holds no OS resource (fillers stay picklable).',
    'C12': ' the tf.data interface makes the selection on every path to its return, for every format.',
    'C14': ' the TFRecord interleave width handed to read_and_decode is bounded by file_parallelism, not by the number of shards.',
    'C16': ' the by-name hash factory returns a newly constructed object per request and keeps none.',
    'C17': ' every shard list is obtained through the loader that tests containment; the root is resolved at construction.',
    'C20': ' no refusing validator is added to a persisted model.',
}
for _k, _v in EXTRA7.items():
    EXTRA[_k] = EXTRA.get(_k, '') + _v
for _pid, _t in EXTRA.items():
    _a, _b, _c = P[_pid]
    P[_pid] = (_a + _t, _b, _c)

checks = []
for pid in sorted(P):
    text, tech, note = P[pid]
    checks.append({
        "property_id": pid,
        "quick_cmd": f"./check {pid} --tier quick",
        "thorough_cmd": f"./check {pid} --tier thorough",
        "evidence_file": f"/verif/evidence/{pid}.json",
        "replay_cmd_template": f"./check {pid} --replay {{path}}",
        "engine": "sa",
        "level_claimed": {
            "category": "other",
            "text": "Static analysis (no execution of sedpack): " + text +
                    " Every instance of each rule in the package is enumerated on each run; the thorough tier additionally validates the checker itself on seeded variants (fires on the seed, silent on the behaviour-preserving twin).",
            "design_ref": f"DESIGN.md section 5 ({pid})",
        },
        "level_note": note + " The claim is the structural clause (a necessary condition of the property), never the run-time behaviour.",
        "technique": "static analysis: " + tech,
    })
m = {
    "version": 1,
    "setup_cmd": "cd /verif/rsfacts && cargo build --offline --release",
    "hooks": {
        "guard": "SEDPACK_VERIF",
        "enable": "none needed: every check reads /repo's source only; nothing in sedpack is instrumented and no hook code exists",
        "baseline_off_cmd": "cd /repo && /venv/bin/python -m pytest -ra -q -p no:cacheprovider --timeout=900 --continue-on-collection-errors",
        "source_commits": [],
        "add_only": True,
    },
    "engines": [
        {"name": "sa", "path": "/verif/sa", "serves_properties": sorted(P),
         "kind_free_text": "Python static analyser over ast: program model with annotation-driven call resolution, statement/call-level CFG with exception edges and constant specialisation, flow-sensitive tag dataflow, interval / accounting-delta / valuation interpreters; rule modules sa/rules/cXX.py"},
        {"name": "rsfacts", "path": "/verif/rsfacts", "serves_properties": ["C01", "C02", "C03", "C07", "C14", "C15", "C19"],
         "kind_free_text": "syn 2.0 based Rust syntax-tree dumper (JSON); rules over the facts live in sa/rules/rustrules.py; built offline by setup_cmd, rebuilt on demand by a check when missing"},
    ],
    "checks": checks,
    "notes": "All 20 properties are claimed at the level of their structural clauses (see DESIGN.md sections 0, 1 and 5 for what is and is not decided per property). Known findings are listed in /verif/known_findings.json; repairs of genuine defects are `fix:` commits in /repo recorded there under `fixed`.",
    "not_applicable": [],
}
Path("/verif/MANIFEST.json").write_text(json.dumps(m, indent=1))
print("written", len(checks), "checks")
