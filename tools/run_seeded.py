#!/venv/bin/python
"""tools/run_seeded.py [ID-mK ...]

Run every check (quick tier) against each confirmed seeded change under
/verif/seeded/. The change is applied in a scratch worktree of /repo HEAD
(outside /repo and /verif; VERIF_REPO points the checks at it), never to
/repo itself; evidence of these runs goes to a scratch directory so that
/verif/evidence keeps describing /repo. Writes seeded/RESULTS.json and
seeded/RESULTS.md."""
import json
import os
import shutil
import subprocess
import sys
from concurrent.futures import ThreadPoolExecutor
from pathlib import Path

VERIF = Path("/verif")
WT = Path("/var/tmp/wt/seedrun")
EV = Path("/var/tmp/wt/seedrun_evidence")
PIDS = [f"C{i:02d}" for i in range(1, 21)]


def sh(cmd, **kw):
    return subprocess.run(cmd, shell=True, capture_output=True, text=True, **kw)


def run_check(pid):
    env = dict(os.environ, VERIF_REPO=str(WT), VERIF_EVIDENCE_DIR=str(EV))
    r = subprocess.run([str(VERIF / "check"), pid, "--tier", "quick"],
                       capture_output=True, text=True, env=env, cwd=VERIF)
    lines = r.stdout.splitlines()
    viol = [lines[i + 1].strip() for i, l in enumerate(lines)
            if l.startswith("VIOLATION") and i + 1 < len(lines)]
    err = [l for l in lines if l.startswith("ANALYSIS-ERROR")]
    return pid, r.returncode, viol, err


def main():
    names = sys.argv[1:] or sorted(
        p.name for p in (VERIF / "seeded").iterdir()
        if (p / "patch.diff").exists())
    if WT.exists():
        sh(f"git -C /repo worktree remove --force {WT}")
        shutil.rmtree(WT, ignore_errors=True)
    assert sh(f"git -C /repo worktree add -q --detach {WT} HEAD").returncode == 0
    EV.mkdir(parents=True, exist_ok=True)
    results = {}
    rp = VERIF / "seeded" / "RESULTS.json"
    if rp.exists() and sys.argv[1:]:
        results = json.loads(rp.read_text())
    try:
        for name in names:
            d = VERIF / "seeded" / name
            meta = json.loads((d / "meta.json").read_text()) if (
                d / "meta.json").exists() else {}
            sh(f"git -C {WT} checkout -q -- . && git -C {WT} clean -fdq")
            ap = sh(f"git -C {WT} apply {d / 'patch.diff'}")
            if ap.returncode != 0:
                results[name] = {"error": "patch does not apply: " + ap.stderr[-200:]}
                continue
            with ThreadPoolExecutor(8) as ex:
                out = list(ex.map(run_check, PIDS))
            fired = {p: v for p, rc, v, e in out if rc == 1}
            errors = {p: e for p, rc, v, e in out if rc == 2}
            target = name.split("-")[0]
            results[name] = {
                "property": target,
                "confirmed": meta.get("confirmed"),
                "files_touched": meta.get("files_touched"),
                "caught_by_own_property_check": target in fired,
                "fired": {p: v[:3] for p, v in fired.items()},
                "analysis_errors": errors,
            }
            print(name, "CAUGHT" if target in fired else (
                "caught-elsewhere:" + ",".join(fired) if fired else (
                    "ANALYSIS-ERROR:" + ",".join(errors) if errors else "MISSED")),
                  flush=True)
    finally:
        sh(f"git -C /repo worktree remove --force {WT}")
        shutil.rmtree(WT, ignore_errors=True)
        shutil.rmtree(EV, ignore_errors=True)
    rp.write_text(json.dumps(results, indent=1, sort_keys=True))
    lines = ["# Seeded changes vs checks (quick tier)", "",
             "| seeded change | files | own check | all checks that fire | first report |",
             "|---|---|---|---|---|"]
    for name, r in sorted(results.items()):
        if "error" in r:
            lines.append(f"| {name} | - | ERROR | {r['error']} | |")
            continue
        first = next(iter(r["fired"].get(r["property"], []) or
                          [v[0] for v in r["fired"].values() if v][:1]), "")
        lines.append(
            f"| {name} | {', '.join(Path(f).name for f in (r['files_touched'] or []))} | "
            f"{'caught' if r['caught_by_own_property_check'] else ('analysis-error' if r['property'] in r['analysis_errors'] else 'MISSED')} | "
            f"{', '.join(sorted(r['fired'])) or '-'} | {first[:160].replace('|', '/')} |")
    (VERIF / "seeded" / "RESULTS.md").write_text("\n".join(lines) + "\n")


if __name__ == "__main__":
    main()
