//! rsfacts: dump the syntax tree of Rust source files as JSON (via syn).
//! Usage: rsfacts FILE...            one JSON object {"files": {FILE: [items]}}
//!        rsfacts --stdin NAME       the same for source text read from stdin
//! Rules over these facts live in Python (/verif/sa/rust.py). Nothing is
//! compiled or executed; the sources are only parsed.
use std::fmt::Write as _;
use std::io::Read;

use quote::ToTokens;
use syn::spanned::Spanned;

enum J {
    S(String),
    N(i64),
    B(bool),
    Null,
    A(Vec<J>),
    O(Vec<(&'static str, J)>),
}

fn esc(s: &str, out: &mut String) {
    out.push('"');
    for c in s.chars() {
        match c {
            '"' => out.push_str("\\\""),
            '\\' => out.push_str("\\\\"),
            '\n' => out.push_str("\\n"),
            '\r' => out.push_str("\\r"),
            '\t' => out.push_str("\\t"),
            c if (c as u32) < 0x20 => {
                let _ = write!(out, "\\u{:04x}", c as u32);
            }
            c => out.push(c),
        }
    }
    out.push('"');
}

impl J {
    fn write(&self, out: &mut String) {
        match self {
            J::S(s) => esc(s, out),
            J::N(n) => {
                let _ = write!(out, "{}", n);
            }
            J::B(b) => out.push_str(if *b { "true" } else { "false" }),
            J::Null => out.push_str("null"),
            J::A(v) => {
                out.push('[');
                for (i, x) in v.iter().enumerate() {
                    if i > 0 {
                        out.push(',');
                    }
                    x.write(out);
                }
                out.push(']');
            }
            J::O(v) => {
                out.push('{');
                for (i, (k, x)) in v.iter().enumerate() {
                    if i > 0 {
                        out.push(',');
                    }
                    esc(k, out);
                    out.push(':');
                    x.write(out);
                }
                out.push('}');
            }
        }
    }
}

fn s(x: impl Into<String>) -> J {
    J::S(x.into())
}

fn toks<T: ToTokens>(t: &T) -> String {
    // normalise the token stream text a little: "a . b ( )" -> keep as is but
    // collapse spaces around path separators and dots for readability
    let raw = t.to_token_stream().to_string();
    raw.replace(" :: ", "::").replace(" . ", ".").replace(" (", "(").replace("( ", "(")
        .replace(" )", ")").replace(" ,", ",").replace("& ", "&").replace(" ;", ";")
        .replace(" !", "!").replace("! ", "!").replace(" ?", "?").replace(" [", "[")
        .replace("[ ", "[").replace(" ]", "]")
}

fn line<T: Spanned>(t: &T) -> J {
    J::N(t.span().start().line as i64)
}

fn node<T: Spanned + ToTokens>(kind: &'static str, t: &T, mut fields: Vec<(&'static str, J)>) -> J {
    let mut v = vec![("k", s(kind)), ("line", line(t)), ("text", s(toks(t)))];
    v.append(&mut fields);
    J::O(v)
}

fn opt_expr(e: &Option<Box<syn::Expr>>) -> J {
    match e {
        Some(e) => expr(e),
        None => J::Null,
    }
}

fn block(b: &syn::Block) -> J {
    J::A(b.stmts.iter().map(stmt).collect())
}

fn pat(p: &syn::Pat) -> J {
    use syn::Pat::*;
    match p {
        Ident(i) => node(
            "PIdent",
            p,
            vec![
                ("name", s(i.ident.to_string())),
                ("mutable", J::B(i.mutability.is_some())),
                ("sub", match &i.subpat { Some((_, sp)) => pat(sp), None => J::Null }),
            ],
        ),
        Wild(_) => node("PWild", p, vec![]),
        Lit(l) => node("PLit", p, vec![("value", s(toks(&l.lit)))]),
        Path(pp) => node("PPath", p, vec![("path", s(toks(&pp.path)))]),
        TupleStruct(ts) => node(
            "PTupleStruct",
            p,
            vec![("path", s(toks(&ts.path))), ("elems", J::A(ts.elems.iter().map(pat).collect()))],
        ),
        Tuple(t) => node("PTuple", p, vec![("elems", J::A(t.elems.iter().map(pat).collect()))]),
        Or(o) => node("POr", p, vec![("cases", J::A(o.cases.iter().map(pat).collect()))]),
        Reference(r) => node("PRef", p, vec![("pat", pat(&r.pat))]),
        Type(t) => node("PType", p, vec![("pat", pat(&t.pat)), ("ty", s(toks(&t.ty)))]),
        Struct(st) => node(
            "PStruct",
            p,
            vec![
                ("path", s(toks(&st.path))),
                (
                    "fields",
                    J::A(st
                        .fields
                        .iter()
                        .map(|f| J::O(vec![("member", s(toks(&f.member))), ("pat", pat(&f.pat))]))
                        .collect()),
                ),
            ],
        ),
        Paren(pp) => pat(&pp.pat),
        _ => node("POther", p, vec![]),
    }
}

fn macro_args(m: &syn::Macro) -> J {
    use syn::punctuated::Punctuated;
    match m.parse_body_with(Punctuated::<syn::Expr, syn::Token![,]>::parse_terminated) {
        Ok(args) => J::A(args.iter().map(expr).collect()),
        Err(_) => J::Null,
    }
}

fn mac(m: &syn::Macro) -> Vec<(&'static str, J)> {
    vec![("path", s(toks(&m.path))), ("tokens", s(m.tokens.to_string())), ("args", macro_args(m))]
}

fn expr(e: &syn::Expr) -> J {
    use syn::Expr::*;
    match e {
        MethodCall(m) => node(
            "MethodCall",
            e,
            vec![
                ("recv", expr(&m.receiver)),
                ("method", s(m.method.to_string())),
                ("turbofish", match &m.turbofish { Some(t) => s(toks(t)), None => J::Null }),
                ("args", J::A(m.args.iter().map(expr).collect())),
            ],
        ),
        Call(c) => {
            node("Call", e, vec![("func", expr(&c.func)), ("args", J::A(c.args.iter().map(expr).collect()))])
        }
        Path(p) => node("Path", e, vec![("path", s(toks(&p.path)))]),
        Field(f) => node("Field", e, vec![("base", expr(&f.base)), ("member", s(toks(&f.member)))]),
        Index(i) => node("Index", e, vec![("base", expr(&i.expr)), ("index", expr(&i.index))]),
        Binary(b) => node(
            "Binary",
            e,
            vec![("op", s(toks(&b.op))), ("left", expr(&b.left)), ("right", expr(&b.right))],
        ),
        Unary(u) => node("Unary", e, vec![("op", s(toks(&u.op))), ("expr", expr(&u.expr))]),
        Lit(l) => node("Lit", e, vec![("value", s(toks(&l.lit)))]),
        Assign(a) => node("Assign", e, vec![("left", expr(&a.left)), ("right", expr(&a.right))]),
        If(i) => node(
            "If",
            e,
            vec![
                ("cond", expr(&i.cond)),
                ("then", block(&i.then_branch)),
                ("else", match &i.else_branch { Some((_, eb)) => expr(eb), None => J::Null }),
            ],
        ),
        Match(m) => node(
            "Match",
            e,
            vec![
                ("expr", expr(&m.expr)),
                (
                    "arms",
                    J::A(m
                        .arms
                        .iter()
                        .map(|a| {
                            J::O(vec![
                                ("line", line(a)),
                                ("pat", pat(&a.pat)),
                                ("guard", match &a.guard { Some((_, g)) => expr(g), None => J::Null }),
                                ("body", expr(&a.body)),
                            ])
                        })
                        .collect()),
                ),
            ],
        ),
        While(w) => node("While", e, vec![("cond", expr(&w.cond)), ("body", block(&w.body))]),
        ForLoop(f) => {
            node("For", e, vec![("pat", pat(&f.pat)), ("iter", expr(&f.expr)), ("body", block(&f.body))])
        }
        Loop(l) => node("Loop", e, vec![("body", block(&l.body))]),
        Block(b) => node("Block", e, vec![("stmts", block(&b.block))]),
        Unsafe(b) => node("Block", e, vec![("stmts", block(&b.block)), ("unsafe", J::B(true))]),
        Closure(c) => node(
            "Closure",
            e,
            vec![
                ("inputs", J::A(c.inputs.iter().map(pat).collect())),
                ("body", expr(&c.body)),
                ("move", J::B(c.capture.is_some())),
            ],
        ),
        Return(r) => node("Return", e, vec![("expr", opt_expr(&r.expr))]),
        Break(b) => node("Break", e, vec![("expr", opt_expr(&b.expr))]),
        Continue(_) => node("Continue", e, vec![]),
        Let(l) => node("Let", e, vec![("pat", pat(&l.pat)), ("expr", expr(&l.expr))]),
        Macro(m) => node("Macro", e, mac(&m.mac)),
        Reference(r) => {
            node("Ref", e, vec![("expr", expr(&r.expr)), ("mutable", J::B(r.mutability.is_some()))])
        }
        Paren(p) => expr(&p.expr),
        Group(g) => expr(&g.expr),
        Tuple(t) => node("Tuple", e, vec![("elems", J::A(t.elems.iter().map(expr).collect()))]),
        Array(a) => node("Array", e, vec![("elems", J::A(a.elems.iter().map(expr).collect()))]),
        Struct(st) => node(
            "Struct",
            e,
            vec![
                ("path", s(toks(&st.path))),
                (
                    "fields",
                    J::A(st
                        .fields
                        .iter()
                        .map(|f| J::O(vec![("member", s(toks(&f.member))), ("expr", expr(&f.expr))]))
                        .collect()),
                ),
                ("rest", match &st.rest { Some(r) => expr(r), None => J::Null }),
            ],
        ),
        Range(r) => node(
            "Range",
            e,
            vec![("from", opt_expr(&r.start)), ("to", opt_expr(&r.end)), ("limits", s(toks(&r.limits)))],
        ),
        Try(t) => node("Try", e, vec![("expr", expr(&t.expr))]),
        Cast(c) => node("Cast", e, vec![("expr", expr(&c.expr)), ("ty", s(toks(&c.ty)))]),
        Await(a) => node("Await", e, vec![("expr", expr(&a.base))]),
        _ => node("Other", e, vec![]),
    }
}

fn stmt(st: &syn::Stmt) -> J {
    match st {
        syn::Stmt::Local(l) => node(
            "Local",
            st,
            vec![
                ("pat", pat(&l.pat)),
                ("init", match &l.init { Some(i) => expr(&i.expr), None => J::Null }),
                (
                    "else",
                    match &l.init {
                        Some(i) => match &i.diverge {
                            Some((_, d)) => expr(d),
                            None => J::Null,
                        },
                        None => J::Null,
                    },
                ),
            ],
        ),
        syn::Stmt::Expr(e, semi) => {
            node("ExprStmt", st, vec![("expr", expr(e)), ("semi", J::B(semi.is_some()))])
        }
        syn::Stmt::Item(i) => node("ItemStmt", st, vec![("item", item(i, ""))]),
        syn::Stmt::Macro(m) => {
            let mut f = mac(&m.mac);
            f.push(("semi", J::B(m.semi_token.is_some())));
            node("MacroStmt", st, f)
        }
    }
}

fn attrs(a: &[syn::Attribute]) -> J {
    J::A(a.iter().map(|x| s(toks(x))).collect())
}

fn sig(sg: &syn::Signature) -> Vec<(&'static str, J)> {
    vec![
        ("name", s(sg.ident.to_string())),
        (
            "params",
            J::A(sg
                .inputs
                .iter()
                .map(|a| match a {
                    syn::FnArg::Receiver(r) => J::O(vec![("name", s("self")), ("ty", s(toks(r)))]),
                    syn::FnArg::Typed(t) => J::O(vec![("name", s(toks(&t.pat))), ("ty", s(toks(&t.ty)))]),
                })
                .collect()),
        ),
        ("ret", match &sg.output { syn::ReturnType::Default => J::Null, syn::ReturnType::Type(_, t) => s(toks(t)) }),
    ]
}

fn item(i: &syn::Item, prefix: &str) -> J {
    use syn::Item::*;
    match i {
        Fn(f) => {
            let mut v = sig(&f.sig);
            v.push(("qual", s(format!("{}{}", prefix, f.sig.ident))));
            v.push(("attrs", attrs(&f.attrs)));
            v.push(("body", block(&f.block)));
            node("Fn", i, v)
        }
        Impl(im) => {
            let ty = toks(&im.self_ty);
            let tr = im.trait_.as_ref().map(|(_, p, _)| toks(p));
            // strip generics from the self type for the qualified name
            let base = ty.split('<').next().unwrap_or(&ty).trim().to_string();
            let q = match &tr {
                Some(t) => format!("{}<{} for {}>::", prefix, t.split('<').next().unwrap_or(t).trim(), base),
                None => format!("{}{}::", prefix, base),
            };
            let mut items = Vec::new();
            for it in &im.items {
                match it {
                    syn::ImplItem::Fn(f) => {
                        let mut v = sig(&f.sig);
                        v.push(("qual", s(format!("{}{}", q, f.sig.ident))));
                        v.push(("attrs", attrs(&f.attrs)));
                        v.push(("body", block(&f.block)));
                        items.push(node("Fn", it, v));
                    }
                    syn::ImplItem::Const(c) => items.push(node(
                        "Const",
                        it,
                        vec![("name", s(c.ident.to_string())), ("ty", s(toks(&c.ty))), ("value", expr(&c.expr))],
                    )),
                    syn::ImplItem::Type(t) => {
                        items.push(node("TypeAlias", it, vec![("name", s(t.ident.to_string())), ("ty", s(toks(&t.ty)))]))
                    }
                    _ => items.push(node("OtherItem", it, vec![])),
                }
            }
            J::O(vec![
                ("k", s("Impl")),
                ("line", line(i)),
                ("self_ty", s(ty)),
                ("trait", match tr { Some(t) => s(t), None => J::Null }),
                ("attrs", attrs(&im.attrs)),
                ("items", J::A(items)),
            ])
        }
        Mod(m) => {
            let p = format!("{}{}::", prefix, m.ident);
            J::O(vec![
                ("k", s("Mod")),
                ("line", line(i)),
                ("name", s(m.ident.to_string())),
                ("attrs", attrs(&m.attrs)),
                (
                    "items",
                    match &m.content {
                        Some((_, its)) => J::A(its.iter().map(|x| item(x, &p)).collect()),
                        None => J::Null,
                    },
                ),
            ])
        }
        Enum(en) => J::O(vec![
            ("k", s("Enum")),
            ("line", line(i)),
            ("name", s(en.ident.to_string())),
            ("attrs", attrs(&en.attrs)),
            ("variants", J::A(en.variants.iter().map(|v| s(v.ident.to_string())).collect())),
        ]),
        Struct(st) => J::O(vec![
            ("k", s("Struct")),
            ("line", line(i)),
            ("name", s(st.ident.to_string())),
            ("attrs", attrs(&st.attrs)),
            (
                "fields",
                J::A(st
                    .fields
                    .iter()
                    .map(|f| {
                        J::O(vec![
                            ("name", match &f.ident { Some(id) => s(id.to_string()), None => J::Null }),
                            ("ty", s(toks(&f.ty))),
                        ])
                    })
                    .collect()),
            ),
        ]),
        Const(c) => node(
            "Const",
            i,
            vec![("name", s(c.ident.to_string())), ("ty", s(toks(&c.ty))), ("value", expr(&c.expr))],
        ),
        Static(c) => node(
            "Static",
            i,
            vec![("name", s(c.ident.to_string())), ("ty", s(toks(&c.ty))), ("value", expr(&c.expr))],
        ),
        Use(u) => node("Use", i, vec![("tree", s(toks(&u.tree)))]),
        Type(t) => node("TypeAlias", i, vec![("name", s(t.ident.to_string())), ("ty", s(toks(&t.ty)))]),
        Trait(t) => J::O(vec![("k", s("Trait")), ("line", line(i)), ("name", s(t.ident.to_string()))]),
        Macro(m) => node("ItemMacro", i, mac(&m.mac)),
        _ => node("OtherItem", i, vec![]),
    }
}

fn parse(name: &str, text: &str) -> Result<J, String> {
    let file = syn::parse_file(text).map_err(|e| {
        format!("{}:{}: parse error: {}", name, e.span().start().line, e)
    })?;
    Ok(J::A(file.items.iter().map(|i| item(i, "")).collect()))
}

fn main() {
    let args: Vec<String> = std::env::args().skip(1).collect();
    let mut files: Vec<(&'static str, J)> = Vec::new();
    let mut out_files: Vec<(String, J)> = Vec::new();
    let mut i = 0;
    while i < args.len() {
        let (name, text) = if args[i] == "--stdin" {
            i += 1;
            let mut t = String::new();
            std::io::stdin().read_to_string(&mut t).expect("read stdin");
            (args[i].clone(), t)
        } else {
            match std::fs::read_to_string(&args[i]) {
                Ok(t) => (args[i].clone(), t),
                Err(e) => {
                    eprintln!("rsfacts: cannot read {}: {}", args[i], e);
                    std::process::exit(3);
                }
            }
        };
        match parse(&name, &text) {
            Ok(j) => out_files.push((name, j)),
            Err(e) => {
                eprintln!("rsfacts: {}", e);
                std::process::exit(4);
            }
        }
        i += 1;
    }
    let _ = &mut files;
    let mut out = String::new();
    out.push_str("{\"files\":{");
    for (k, (name, j)) in out_files.iter().enumerate() {
        if k > 0 {
            out.push(',');
        }
        esc(name, &mut out);
        out.push(':');
        j.write(&mut out);
    }
    out.push_str("}}");
    println!("{}", out);
}
